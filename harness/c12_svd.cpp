// C12 — jacobiSVD (3x3 and 4x4), with and without forcePositiveDeterminant, on complete integer lattices.
//
// Oracle: from the definition, in long double. U^T U = V^T V = I to 64 eps; S descending and >= 0 (exact
// comparison; with forcePositiveDeterminant |S| descending, only the last value may be negative, det U > 0 and
// det V > 0); U diag(S) V^T = A to 64 eps ||A||_F; |S_i| equals the exact singular value to the same bound.
// Exact singular values: A^T A is an exact integer matrix; its eigenvalues come from a long-double cyclic
// Jacobi iteration (converged to 1e-21 ||.||), and the n - rank(A) smallest are set to exactly 0 with rank(A)
// computed in exact integer arithmetic (so sqrt never amplifies a rounding residue of a zero eigenvalue; the
// non-zero ones are >= 1/||A||_F^(2(n-1)), far above 1e-19).
// (64 eps = the n^2 eps scale of a converged two-sided Jacobi sweep with a >= 3x margin, DESIGN C12.)
#include "c12.hpp"

namespace c12 {
using vf::R;

template <class T, int N> struct LibTypes;
template <class T> struct LibTypes<T, 3> { typedef Matrix33<T> M; typedef Vec3<T> V; static const char* name () { return "Matrix33"; } };
template <class T> struct LibTypes<T, 4> { typedef Matrix44<T> M; typedef Vec4<T> V; static const char* name () { return "Matrix44"; } };

struct SvdTally
{
    long long cases = 0, transitions = 0, rankdef = 0, repeated = 0, diagonal = 0, negdet = 0, generic = 0, aliased = 0, scaled = 0;
    long long graded = 0, graded_neg = 0, graded_firstsweep = 0;
    double    w_orth = 0, w_recomp = 0, w_sv = 0;
    void merge (const SvdTally& o)
    {
        cases += o.cases; transitions += o.transitions; rankdef += o.rankdef; repeated += o.repeated; diagonal += o.diagonal; negdet += o.negdet; generic += o.generic; aliased += o.aliased; scaled += o.scaled;
        graded += o.graded; graded_neg += o.graded_neg; graded_firstsweep += o.graded_firstsweep;
        w_orth = std::max (w_orth, o.w_orth); w_recomp = std::max (w_recomp, o.w_recomp); w_sv = std::max (w_sv, o.w_sv);
    }
};

// exact data of an integer matrix
template <int N> struct IntMat
{
    long long     a[N * N];
    ref::Mat<N>   A;
    LD            sigma[N], normF;
    int           rank;
    bool          isDiagonal, repeated;
    ex::i128      det;
    void          finish ()
    {
        ref::Mat<N> AtA;
        isDiagonal = true;
        for (int i = 0; i < N; ++i)
            for (int j = 0; j < N; ++j)
            {
                A[i][j] = (LD) a[i * N + j];
                if (i != j && a[i * N + j] != 0) isDiagonal = false;
                long long s = 0;
                for (int k = 0; k < N; ++k) s += a[k * N + i] * a[k * N + j];
                AtA[i][j] = (LD) s;
            }
        normF = ref::frob (A);
        rank  = ref::rankExact (a, N, N);
        LD ev[N];
        ref::symEigen<N> (AtA, ev);
        repeated = false;
        for (int i = 0; i < N; ++i) sigma[i] = i < rank ? sqrtl (std::max (ev[i], (LD) 0)) : 0;
        for (int i = 0; i + 1 < rank; ++i) if (fabsl (sigma[i] - sigma[i + 1]) <= 1e-15L * normF) repeated = true;
        ex::i128 b[N * N];
        for (int i = 0; i < N * N; ++i) b[i] = a[i];
        det = ex::det_exact (b, N);
    }
    std::string str () const
    {
        std::string s = "[";
        for (int i = 0; i < N * N; ++i) s += (i ? " " : "") + std::to_string (a[i]);
        return s + "]";
    }
};

// kexp != 0: the same integer matrix multiplied by 2^kexp (exactly representable; every quantity of the oracle scales by
// the same exact factor). The statement's relations are relative to |A|, so they must hold unchanged; the sites carry the
// suffix ".scaled-input" (a tolerance or an early-out that is absolute instead of relative to the data is invisible on O(1)
// integers). 2^kexp is chosen so that entries, their pairwise products and the rounding-level residues eps*|A| stay normal
// numbers of T: +-40 for float, +-300 for double.
template <class T, int N> static void checkSvd (const IntMat<N>& I0, SvdTally& t, int kexp = 0)
{
    typedef typename LibTypes<T, N>::M LM;
    typedef typename LibTypes<T, N>::V LV;
    const LD          eps = ex::eps<T> ();
    const std::string sfx = kexp ? ".scaled-input" : "";
    const std::string fn  = std::string ("jacobiSVD(") + LibTypes<T, N>::name () + ")";
    struct Scaled { ref::Mat<N> A; LD sigma[N], normF; int rank; bool repeated, isDiagonal; ex::i128 det; std::string s; std::string str () const { return s; } } I;
    {
        const LD sc = ldexpl (1.0L, kexp);
        for (int i = 0; i < N; ++i) { I.sigma[i] = I0.sigma[i] * sc; for (int j = 0; j < N; ++j) I.A[i][j] = I0.A[i][j] * sc; }
        I.normF = I0.normF * sc; I.rank = I0.rank; I.repeated = I0.repeated; I.isDiagonal = I0.isDiagonal; I.det = I0.det;
        I.s = I0.str () + (kexp ? " * 2^" + std::to_string (kexp) : std::string ());
    }
    LM A;
    for (int i = 0; i < N; ++i) for (int j = 0; j < N; ++j) A[i][j] = (T) I.A[i][j];
    ++t.cases;
    if (kexp) ++t.scaled;
    if (I.rank < N) ++t.rankdef;
    if (I.repeated) ++t.repeated;
    if (I.isDiagonal) ++t.diagonal;
    if (I.det < 0) ++t.negdet;
    if (!(I.rank < N) && !I.repeated && !I.isDiagonal && !(I.det < 0)) ++t.generic;

    for (int force = 0; force < 2; ++force)
    {
        LM U, V;
        LV S;
        auto in = [&] () { return "T=" + std::string (ref::tname<T> ()) + " forcePositiveDeterminant=" + (force ? "true" : "false") + " A=" + I.str (); };
        if (force) jacobiSVD (A, U, S, V, std::numeric_limits<T>::epsilon (), true);
        else jacobiSVD (A, U, S, V); // default tolerance, default flag
        // an output may be the very object passed as the input (A is a const reference, U and V are references):
        // jacobiSVD (M, M, S, V) and jacobiSVD (M, U, S, M) must give what the call with distinct objects gives
        {
            LM M1 = A, V1; LV S1;
            LM M2 = A, U2; LV S2;
            if (force) { jacobiSVD (M1, M1, S1, V1, std::numeric_limits<T>::epsilon (), true); jacobiSVD (M2, U2, S2, M2, std::numeric_limits<T>::epsilon (), true); }
            else { jacobiSVD (M1, M1, S1, V1); jacobiSVD (M2, U2, S2, M2); }
            bool same1 = true, same2 = true;
            for (int i = 0; i < N; ++i)
            {
                if (!ex::same (S1[i], S[i])) same1 = false;
                if (!ex::same (S2[i], S[i])) same2 = false;
                for (int j = 0; j < N; ++j)
                {
                    if (!ex::same (M1[i][j], U[i][j]) || !ex::same (V1[i][j], V[i][j])) same1 = false;
                    if (!ex::same (U2[i][j], U[i][j]) || !ex::same (M2[i][j], V[i][j])) same2 = false;
                }
            }
            ++t.aliased;
            if (!same1) R ().fail (fn + ".U-aliases-A" + sfx, in (), "U=" + ref::fmtLib<N> (U) + " S=" + fmtVec (S), "U=" + ref::fmtLib<N> (M1) + " S=" + fmtVec (S1));
            if (!same2) R ().fail (fn + ".V-aliases-A" + sfx, in (), "V=" + ref::fmtLib<N> (V) + " S=" + fmtVec (S), "V=" + ref::fmtLib<N> (M2) + " S=" + fmtVec (S2));
        }
        ref::Mat<N> Ul = ref::fromLib<N> (U), Vl = ref::fromLib<N> (V), D;
        LD ou = ref::orthoErr (ref::transpose (Ul)), ov = ref::orthoErr (ref::transpose (Vl));
        t.w_orth = std::max (t.w_orth, (double) (std::max (ou, ov) / eps));
        if (!(ou <= 64 * eps)) R ().fail (fn + ".U-orthonormal" + sfx, in (), "|U^T U - I| <= 64 eps", ref::fmtE (ou / eps) + " eps; U=" + ref::fmtLib<N> (U));
        if (!(ov <= 64 * eps)) R ().fail (fn + ".V-orthonormal" + sfx, in (), "|V^T V - I| <= 64 eps", ref::fmtE (ov / eps) + " eps; V=" + ref::fmtLib<N> (V));
        bool ordered = true, nonneg = true;
        for (int i = 0; i < N; ++i)
        {
            LD si = (LD) S[i];
            if (!(si == si)) { ordered = false; continue; }
            if (i + 1 < N && !(fabsl (si) >= fabsl ((LD) S[i + 1]))) ordered = false;
            if (!(si >= 0) && !(force && i == N - 1)) nonneg = false;
            D[i][i] = si;
        }
        if (!ordered) R ().fail (fn + ".descending" + sfx, in (), "S[0] >= S[1] >= ... (exact)", fmtVec (S));
        if (!nonneg) R ().fail (fn + (force ? ".only-last-value-may-be-negative" : ".non-negative") + sfx, in (), force ? "S[i] >= 0 for i < n-1" : "S >= 0", fmtVec (S));
        if (force)
        {
            LD du = ref::det (Ul), dv = ref::det (Vl);
            if (!(du > 0)) R ().fail (fn + ".forcePositiveDeterminant.det-U" + sfx, in (), "> 0", ref::fmtE (du));
            if (!(dv > 0)) R ().fail (fn + ".forcePositiveDeterminant.det-V" + sfx, in (), "> 0", ref::fmtE (dv));
        }
        ref::Mat<N> UD; // U diag(S): scale the columns
        for (int i = 0; i < N; ++i) for (int k = 0; k < N; ++k) UD[i][k] = Ul[i][k] * D[k][k];
        LD rc = ref::maxdiff (ref::mul (UD, ref::transpose (Vl)), I.A);
        if (I.normF > 0) t.w_recomp = std::max (t.w_recomp, (double) (rc / (eps * I.normF)));
        if (!(rc <= 64 * eps * I.normF)) R ().fail (fn + ".recompose" + sfx, in (), "|U diag(S) V^T - A| <= 64 eps |A|_F", ref::fmtE (rc / (eps * std::max (I.normF, (LD) 1e-300L))) + " eps|A|; S=" + fmtVec (S));
        LD sv = 0;
        for (int i = 0; i < N; ++i) { LD d = fabsl (fabsl ((LD) S[i]) - I.sigma[i]); sv = (d == d) ? std::max (sv, d) : INFINITY; }
        if (I.normF > 0) t.w_sv = std::max (t.w_sv, (double) (sv / (eps * I.normF)));
        if (!(sv <= 64 * eps * I.normF))
            R ().fail (fn + ".singular-values" + sfx, in (), vf::Msg () << "(" << ref::fmtE (I.sigma[0]) << " " << ref::fmtE (I.sigma[1]) << " " << ref::fmtE (I.sigma[2]) << (N == 4 ? " " + ref::fmtE (I.sigma[N - 1]) : std::string ()) << ") within 64 eps |A|_F", fmtVec (S));
        t.transitions += 5 + 2 * force;
    }
}

template <int N> static bool sweep (const char* stage, uint64_t count, unsigned base, int offset, const std::string& bound, int kf = 0, int kd = 0)
{
    if (!R ().stage (stage)) return true;
    SvdTally   G;
    std::mutex mu;
    bool ok = vf::parallel_chunks (count, 4096, [&] (uint64_t lo, uint64_t hi, unsigned) {
        SvdTally l;
        for (uint64_t i = lo; i < hi; ++i)
        {
            int d[N * N];
            ex::decode (i, base, N * N, d, offset);
            IntMat<N> I;
            for (int k = 0; k < N * N; ++k) I.a[k] = d[k];
            I.finish ();
            if (kf == 0)
            {
                checkSvd<float, N> (I, l);
                checkSvd<double, N> (I, l);
            }
            else
                for (int sg = -1; sg <= 1; sg += 2)
                {
                    checkSvd<float, N> (I, l, sg * kf);
                    checkSvd<double, N> (I, l, sg * kd);
                }
        }
        std::lock_guard<std::mutex> g (mu);
        G.merge (l);
    });
    const std::string n = std::to_string (N) + "x" + std::to_string (N);
    R ().add ("states", G.cases / 2); R ().add ("evaluations", G.cases * 2); R ().add ("transitions", G.transitions);
    if (kf)
    {
        R ().cls ("svd" + n + ".input-scaled-by-2^+-k", G.scaled);
        R ().note_max ("worst scaled-input SVD " + n + " orthonormality (eps)", G.w_orth);
        R ().note_max ("worst scaled-input SVD " + n + " recomposition (eps |A|_F)", G.w_recomp);
        R ().note_max ("worst scaled-input SVD " + n + " singular value error (eps |A|_F)", G.w_sv);
        if (ok) R ().stage_done (bound); else R ().stage_partial (std::to_string (G.cases / 4) + " matrices of: " + bound);
        return ok;
    }
    R ().cls ("svd" + n + ".rank-deficient", G.rankdef);
    R ().cls ("svd" + n + ".repeated-singular-values", G.repeated);
    R ().cls ("svd" + n + ".already-diagonal", G.diagonal);
    R ().cls ("svd" + n + ".negative-determinant", G.negdet);
    R ().cls ("svd" + n + ".generic", G.generic);
    R ().cls ("svd" + n + ".output-aliases-input", G.aliased);
    R ().note_max ("worst SVD " + n + " orthonormality (eps)", G.w_orth);
    R ().note_max ("worst SVD " + n + " recomposition (eps |A|_F)", G.w_recomp);
    R ().note_max ("worst SVD " + n + " singular value error (eps |A|_F)", G.w_sv);
    if (ok) R ().stage_done (bound); else R ().stage_partial (std::to_string (G.cases / 2) + " matrices of: " + bound);
    return ok;
}

// ---- graded entries: every 3x3 matrix with at most four non-zero entries taken from {+-1, +-2^20, +-2^-20}.
// Normwise backward stability of the two-sided Jacobi iteration does not depend on the grading, so the same relations hold
// with the same bounds relative to |A|_F: U, V orthonormal, |S| descending, signs, U diag(S) V^T = A to 64 eps |A|_F. (The
// exact singular values are not compared here: the small ones of a graded matrix are below the resolution of the
// long-double reference that works on A^T A.) On integer inputs the "negligible but non-zero off-diagonal entry is zeroed"
// branches of the 2x2 step are reached only in late sweeps; here the very first sweep meets |x| <= eps |w|.
template <class T> static void checkGraded (const LD a[9], const std::string& str, SvdTally& t)
{
    const LD eps = ex::eps<T> ();
    const std::string fn = "jacobiSVD(Matrix33)", sfx = ".graded-entries";
    Matrix33<T> A;
    ref::M3 Al;
    for (int i = 0; i < 3; ++i) for (int j = 0; j < 3; ++j) { A[i][j] = (T) a[3 * i + j]; Al[i][j] = a[3 * i + j]; }
    const LD normF = ref::frob (Al);
    ++t.cases; ++t.graded;
    if (ref::det (Al) < 0) ++t.graded_neg;
    for (int i = 0; i < 3; ++i) for (int j = 0; j < 3; ++j) if (i != j && a[3 * i + j] != 0 && fabsl (a[3 * i + j]) <= eps * normF) { ++t.graded_firstsweep; i = 3; break; }
    for (int force = 0; force < 2; ++force)
    {
        Matrix33<T> U, V;
        Vec3<T>     S;
        auto in = [&] () { return "T=" + std::string (ref::tname<T> ()) + " forcePositiveDeterminant=" + (force ? "true" : "false") + " A=" + str; };
        if (force) jacobiSVD (A, U, S, V, std::numeric_limits<T>::epsilon (), true);
        else jacobiSVD (A, U, S, V);
        ref::M3 Ul = ref::fromLib<3> (U), Vl = ref::fromLib<3> (V), UD;
        LD ou = ref::orthoErr (ref::transpose (Ul)), ov = ref::orthoErr (ref::transpose (Vl));
        t.w_orth = std::max (t.w_orth, (double) (std::max (ou, ov) / eps));
        if (!(ou <= 64 * eps)) R ().fail (fn + ".U-orthonormal" + sfx, in (), "|U^T U - I| <= 64 eps", ref::fmtE (ou / eps) + " eps; U=" + ref::fmtLib<3> (U));
        if (!(ov <= 64 * eps)) R ().fail (fn + ".V-orthonormal" + sfx, in (), "|V^T V - I| <= 64 eps", ref::fmtE (ov / eps) + " eps; V=" + ref::fmtLib<3> (V));
        bool ordered = true, nonneg = true;
        for (int i = 0; i < 3; ++i)
        {
            LD si = (LD) S[i];
            if (!(si == si)) { ordered = false; continue; }
            if (i + 1 < 3 && !(fabsl (si) >= fabsl ((LD) S[i + 1]))) ordered = false;
            if (!(si >= 0) && !(force && i == 2)) nonneg = false;
        }
        if (!ordered) R ().fail (fn + ".descending" + sfx, in (), "|S[0]| >= |S[1]| >= |S[2]| (exact)", fmtVec (S));
        if (!nonneg) R ().fail (fn + (force ? ".only-last-value-may-be-negative" : ".non-negative") + sfx, in (), force ? "S[i] >= 0 for i < n-1" : "S >= 0", fmtVec (S));
        if (force)
        {
            LD du = ref::det (Ul), dv = ref::det (Vl);
            if (!(du > 0)) R ().fail (fn + ".forcePositiveDeterminant.det-U" + sfx, in (), "> 0", ref::fmtE (du));
            if (!(dv > 0)) R ().fail (fn + ".forcePositiveDeterminant.det-V" + sfx, in (), "> 0", ref::fmtE (dv));
        }
        for (int i = 0; i < 3; ++i) for (int k = 0; k < 3; ++k) UD[i][k] = Ul[i][k] * (LD) S[k];
        LD rc = ref::maxdiff (ref::mul (UD, ref::transpose (Vl)), Al);
        t.w_recomp = std::max (t.w_recomp, (double) (rc / (eps * normF)));
        if (!(rc <= 64 * eps * normF)) R ().fail (fn + ".recompose" + sfx, in (), "|U diag(S) V^T - A| <= 64 eps |A|_F", ref::fmtE (rc / (eps * normF)) + " eps|A|; S=" + fmtVec (S));
        t.transitions += 4 + 2 * force;
    }
}

static void stage_graded ()
{
    if (!R ().stage ("svd3x3-graded")) return;
    static const LD VAL[6] = {1, -1, 1048576.0L, -1048576.0L, 9.5367431640625e-07L, -9.5367431640625e-07L}; // +-1, +-2^20, +-2^-20
    static const char* const VN[6] = {"1", "-1", "2^20", "-2^20", "2^-20", "-2^-20"};
    // enumerate position subsets of size 1..4 (bitmask over 9 cells), then 6^m values
    std::vector<int> masks;
    for (int m = 1; m < 512; ++m) if (__builtin_popcount (m) <= 4) masks.push_back (m);
    SvdTally   G;
    std::mutex mu;
    bool ok = vf::parallel_chunks (masks.size (), 1, [&] (uint64_t lo, uint64_t hi, unsigned) {
        SvdTally l;
        for (uint64_t mi = lo; mi < hi; ++mi)
        {
            int pos[4], m = 0;
            for (int c = 0; c < 9; ++c) if (masks[mi] >> c & 1) pos[m++] = c;
            const uint64_t nv = ex::ipow (6, m);
            for (uint64_t vi = 0; vi < nv; ++vi)
            {
                int d[4];
                ex::decode (vi, 6, m, d);
                LD a[9] = {0, 0, 0, 0, 0, 0, 0, 0, 0};
                std::string str = "[";
                for (int q = 0; q < m; ++q) a[pos[q]] = VAL[d[q]];
                for (int c = 0, q = 0; c < 9; ++c) { str += (c ? " " : ""); if (a[c] != 0) str += VN[d[q++]]; else str += "0"; }
                str += "]";
                checkGraded<float> (a, str, l);
                checkGraded<double> (a, str, l);
            }
        }
        std::lock_guard<std::mutex> g (mu);
        G.merge (l);
    });
    R ().add ("states", G.cases / 2); R ().add ("evaluations", G.cases * 2); R ().add ("transitions", G.transitions);
    R ().cls ("svd3x3.graded-entries(1, 2^20, 2^-20)", G.graded);
    R ().cls ("svd3x3.graded.negative-determinant", G.graded_neg);
    R ().cls ("svd3x3.graded.off-diagonal-entry-below-eps|A|(first-sweep negligible branch)", G.graded_firstsweep);
    R ().note_max ("worst graded SVD 3x3 orthonormality (eps)", G.w_orth);
    R ().note_max ("worst graded SVD 3x3 recomposition (eps |A|_F)", G.w_recomp);
    std::string b = "all 3x3 matrices with 1..4 non-zero entries from {+-1, +-2^20, +-2^-20} x {float,double} x {default, forcePositiveDeterminant}";
    if (ok) R ().stage_done (b); else R ().stage_partial (b);
}

void stage_svd ()
{
    stage_graded ();
    sweep<3> ("svd3x3-scaled", ex::ipow (4, 9), 4, -1, "all 262144 3x3 matrices over {-1,0,1,2} times 2^+-40 (float) / 2^+-300 (double) x {default, forcePositiveDeterminant}", 40, 300);
    sweep<4> ("svd4x4-scaled", ex::ipow (2, 16), 2, 0, "all 65536 4x4 matrices over {0,1} times 2^+-40 (float) / 2^+-300 (double) x {default, forcePositiveDeterminant}", 40, 300);
    sweep<3> ("svd3x3", ex::ipow (4, 9), 4, -1, "all 262144 3x3 matrices over {-1,0,1,2} x {float,double} x {default, forcePositiveDeterminant}");
    if (R ().thorough ())
        sweep<4> ("svd4x4", ex::ipow (3, 16), 3, -1, "all 43046721 4x4 matrices over {-1,0,1} x {float,double} x {default, forcePositiveDeterminant}");
    else
        sweep<4> ("svd4x4", ex::ipow (2, 16), 2, 0, "all 65536 4x4 matrices over {0,1} x {float,double} x {default, forcePositiveDeterminant}");
}

} // namespace c12
