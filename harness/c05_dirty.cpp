// C05, stage "products-into-dirty-objects" (blind spot shown by the seeded rounds: out-parameter products were only ever handed
// freshly constructed destinations).
//
// The property states every product "equals its algebraic definition": Matrix44::multiply(a,b,c) leaves a*b in c,
// multVecMatrix(src,dst) / multDirMatrix(src,dst) leave the (homogeneous / direction) product in dst, outerProduct(a,b) and
// transposed() return, and transpose() leaves, a matrix that is a function of the operands alone. A destination is, in
// general, a re-used object. Each of these is therefore run on
//     * a value-initialised destination (identity matrix / zero vector),
//     * a destination holding a distinct prime 100+p_k in EVERY slot,
//     * one holding the sign-alternating primes in reverse order (no slot agrees with the first fill),
//     * one holding a quiet NaN in EVERY slot (a slot that is read-modified, `dst.z += ...`, `c[3][3] *= 0`, stays NaN),
// and the three re-used destinations must end BITWISE equal to the first in all slots. Oracle: the statement itself -- the result
// is determined by the operands; the same function on the same operands is a deterministic sequence of IEEE operations, so a
// difference of one bit is a dependence on the previous contents. No tolerance. That the first result IS the algebraic product is
// decided by the exact stages; this stage removes their assumption "the destination was fresh".
//
// Sites: "<Class><T>::<function>[arg S].result-depends-on-previous-contents".
#include "../engine/exact.hpp"
#include "../engine/report.hpp"
#include <ImathMatrix.h>
#include <ImathMatrixAlgo.h>
#include <ImathVec.h>
#include <limits>

using namespace IMATH_NAMESPACE;
using vf::R;

namespace {
struct Tally { long long st = 0, tr = 0, fill[3] = {0, 0, 0}, proj = 0, affine = 0, mixed = 0, multiply3 = 0, vecdst = 0, matdst = 0; };

template <class S> struct SN;
template <> struct SN<float>  { static const char* n () { return "float"; } };
template <> struct SN<double> { static const char* n () { return "double"; } };

const char* FILLN[3] = {"every slot a distinct prime 100+p_k", "every slot -+(100+p_k), reversed", "every slot NaN"};

template <class O, class E> void dirty (O& o, int kind)
{
    E*        p = reinterpret_cast<E*> (&o);
    const int N = (int) (sizeof (O) / sizeof (E));
    for (int i = 0; i < N; ++i)
        p[i] = kind == 0 ? (E) (100 + ex::PRIMES[i]) : kind == 1 ? (E) (((i & 1) ? 1 : -1) * (100 + ex::PRIMES[N - 1 - i])) : std::numeric_limits<E>::quiet_NaN ();
}
template <class O, class E> int diff (const O& a, const O& b)
{
    const E * p = reinterpret_cast<const E*> (&a), *q = reinterpret_cast<const E*> (&b);
    const int N = (int) (sizeof (O) / sizeof (E));
    for (int i = 0; i < N; ++i) if (!ex::same (p[i], q[i])) return i;
    return -1;
}
template <class O, class E> std::string show (const O& a)
{
    const E*  p = reinterpret_cast<const E*> (&a);
    const int N = (int) (sizeof (O) / sizeof (E));
    std::string s;
    for (int i = 0; i < N; ++i) s += (i ? " " : "") + vf::fmt (p[i]);
    return s;
}

// O = destination type with element type E; apply(O&) runs the product into the destination
template <class O, class E, class Apply, class Desc> void run (Tally& tl, const std::string& site, Apply apply, Desc desc)
{
    O ref = O ();
    apply (ref);
    ++tl.st; ++tl.tr;
    for (int k = 0; k < 3; ++k)
    {
        O d;
        dirty<O, E> (d, k);
        apply (d);
        ++tl.tr; ++tl.fill[k];
        int at = diff<O, E> (d, ref);
        if (at >= 0)
            R ().fail (site, desc () + "; destination previously: " + FILLN[k] + "; first differing slot " + std::to_string (at),
                       "what the same call leaves in a value-initialised destination: " + show<O, E> (ref), show<O, E> (d));
    }
}

// operand alphabets: matrices 0..5 = dense generic primes (both signs, projective last column) ; 6 = affine last column ; 7 = identity ;
// 8 = zero
template <class M, class T, int N> M mat (int g)
{
    M m;
    if (g == 7) return m;
    for (int i = 0; i < N; ++i)
        for (int j = 0; j < N; ++j)
        {
            int v = ex::PRIMES[(i * N + j + 3 * g) % 24];
            if ((g + i + 2 * j) % 3 == 0) v = -v;
            m.x[i][j] = g == 8 ? (T) 0 : (T) v / (T) (g & 1 ? 4 : 1);
        }
    if (g == 6) { for (int i = 0; i < N - 1; ++i) m.x[i][N - 1] = 0; m.x[N - 1][N - 1] = 1; }
    return m;
}
const int NMAT = 9;
template <class S> S comp (int l, int slot) { static const int P[4] = {3, 5, 7, 11}; return l < 0 ? (S) -P[slot] : l == 0 ? (S) 0 : (S) (P[slot] / (S) 8); }

template <class T> std::string st (const char* cls, const std::string& f) { return std::string (cls) + "<" + SN<T>::n () + ">::" + f + ".result-depends-on-previous-contents"; }
template <class T, class S> std::string sa (const char* cls, const std::string& f)
{
    return st<T> (cls, f + (std::is_same<T, S>::value ? std::string () : std::string ("[arg ") + SN<S>::n () + "]"));
}

template <class T, class S> void vec_products (Tally& tl)
{
    const bool mx = !std::is_same<T, S>::value;
    for (int g = 0; g < NMAT; ++g)
    {
        const Matrix22<T> m2 = mat<Matrix22<T>, T, 2> (g);
        const Matrix33<T> m3 = mat<Matrix33<T>, T, 3> (g);
        const Matrix44<T> m4 = mat<Matrix44<T>, T, 4> (g);
        for (int i = 0; i < 9; ++i)
        {
            int l[2];
            ex::decode ((uint64_t) i, 3, 2, l, -1);
            const Vec2<S> v (comp<S> (l[0], 0), comp<S> (l[1], 1));
            auto d = [&] (const char* f) { return [=] () { return std::string (f) + "(src=(" + vf::fmt (v.x) + "," + vf::fmt (v.y) + "), dst), matrix alphabet member " + std::to_string (g); }; };
            tl.vecdst += 3; if (mx) tl.mixed += 3;
            if (g == 6 || g == 7) ++tl.affine; else if (g < 6) ++tl.proj;
            run<Vec2<S>, S> (tl, sa<T, S> ("Matrix22", "multDirMatrix"), [&] (Vec2<S>& o) { m2.multDirMatrix (v, o); }, d ("Matrix22::multDirMatrix"));
            run<Vec2<S>, S> (tl, sa<T, S> ("Matrix33", "multVecMatrix"), [&] (Vec2<S>& o) { m3.multVecMatrix (v, o); }, d ("Matrix33::multVecMatrix"));
            run<Vec2<S>, S> (tl, sa<T, S> ("Matrix33", "multDirMatrix"), [&] (Vec2<S>& o) { m3.multDirMatrix (v, o); }, d ("Matrix33::multDirMatrix"));
        }
        for (int i = 0; i < 27; ++i)
        {
            int l[3];
            ex::decode ((uint64_t) i, 3, 3, l, -1);
            const Vec3<S> v (comp<S> (l[0], 0), comp<S> (l[1], 1), comp<S> (l[2], 2));
            auto d = [&] (const char* f) { return [=] () { return std::string (f) + "(src=(" + vf::fmt (v.x) + "," + vf::fmt (v.y) + "," + vf::fmt (v.z) + "), dst), matrix alphabet member " + std::to_string (g); }; };
            tl.vecdst += 2; if (mx) tl.mixed += 2;
            if (g == 6 || g == 7) ++tl.affine; else if (g < 6) ++tl.proj;
            run<Vec3<S>, S> (tl, sa<T, S> ("Matrix44", "multVecMatrix"), [&] (Vec3<S>& o) { m4.multVecMatrix (v, o); }, d ("Matrix44::multVecMatrix"));
            run<Vec3<S>, S> (tl, sa<T, S> ("Matrix44", "multDirMatrix"), [&] (Vec3<S>& o) { m4.multDirMatrix (v, o); }, d ("Matrix44::multDirMatrix"));
        }
    }
}

template <class T> void mat_products (Tally& tl)
{
    typedef Matrix22<T> M2; typedef Matrix33<T> M3; typedef Matrix44<T> M4;
    for (int ga = 0; ga < NMAT; ++ga)
    {
        const M2 a2 = mat<M2, T, 2> (ga); const M3 a3 = mat<M3, T, 3> (ga); const M4 a4 = mat<M4, T, 4> (ga);
        auto d = [&] (const char* f) { return [=] () { return std::string (f) + ", operand = matrix alphabet member " + std::to_string (ga); }; };
        tl.matdst += 6;
        run<M2, T> (tl, st<T> ("Matrix22", "transposed"), [&] (M2& o) { o = a2.transposed (); }, d ("dst = a.transposed()"));
        run<M3, T> (tl, st<T> ("Matrix33", "transposed"), [&] (M3& o) { o = a3.transposed (); }, d ("dst = a.transposed()"));
        run<M4, T> (tl, st<T> ("Matrix44", "transposed"), [&] (M4& o) { o = a4.transposed (); }, d ("dst = a.transposed()"));
        run<M2, T> (tl, st<T> ("Matrix22", "transpose"), [&] (M2& o) { o = a2; o.transpose (); }, d ("dst = a; dst.transpose()"));
        run<M3, T> (tl, st<T> ("Matrix33", "transpose"), [&] (M3& o) { o = a3; o.transpose (); }, d ("dst = a; dst.transpose()"));
        run<M4, T> (tl, st<T> ("Matrix44", "transpose"), [&] (M4& o) { o = a4; o.transpose (); }, d ("dst = a; dst.transpose()"));
        for (int gb = 0; gb < NMAT; ++gb)
        {
            const M4 b4 = mat<M4, T, 4> (gb);
            ++tl.multiply3; ++tl.matdst;
            run<M4, T> (tl, st<T> ("Matrix44", "multiply(a,b,c)"), [&] (M4& o) { M4::multiply (a4, b4, o); },
                        [=] () { return "Matrix44::multiply(a,b,c), a,b = matrix alphabet members " + std::to_string (ga) + "," + std::to_string (gb); });
        }
    }
    for (int i = 0; i < 81; ++i)
        for (int j = 0; j < 81; j += 4)
        {
            int l[4], r[4];
            ex::decode ((uint64_t) i, 3, 4, l, -1);
            ex::decode ((uint64_t) j, 3, 4, r, -1);
            const Vec4<T> a (comp<T> (l[0], 0), comp<T> (l[1], 1), comp<T> (l[2], 2), comp<T> (l[3], 3)), b (comp<T> (r[3], 0), comp<T> (r[2], 1), comp<T> (r[1], 2), comp<T> (r[0], 3));
            const Vec3<T> a3 (a.x, a.y, a.z), b3 (b.x, b.y, b.z);
            tl.matdst += 2;
            run<M4, T> (tl, st<T> ("outerProduct(Vec4)", "assigned"), [&] (M4& o) { o = outerProduct (a, b); },
                        [=] () { return "dst = outerProduct((" + vf::fmt (a.x) + "," + vf::fmt (a.y) + "," + vf::fmt (a.z) + "," + vf::fmt (a.w) + "),(" + vf::fmt (b.x) + "," + vf::fmt (b.y) + "," + vf::fmt (b.z) + "," + vf::fmt (b.w) + "))"; });
            run<M3, T> (tl, st<T> ("outerProduct(Vec3)", "assigned"), [&] (M3& o) { o = outerProduct (a3, b3); },
                        [=] () { return "dst = outerProduct((" + vf::fmt (a.x) + "," + vf::fmt (a.y) + "," + vf::fmt (a.z) + "),(" + vf::fmt (b.x) + "," + vf::fmt (b.y) + "," + vf::fmt (b.z) + "))"; });
        }
}
} // namespace

void c05_dirty_stage ()
{
    if (!R ().stage ("products-into-dirty-objects")) return;
    Tally tl;
    vec_products<float, float> (tl); vec_products<double, double> (tl); vec_products<float, double> (tl); vec_products<double, float> (tl);
    mat_products<float> (tl); mat_products<double> (tl);
    R ().add ("states", tl.st); R ().add ("transitions", tl.tr); R ().add ("evaluations", tl.st);
    R ().cls ("dirty-destination.previous-contents-distinct-primes", tl.fill[0]);
    R ().cls ("dirty-destination.previous-contents-sign-flipped-reversed-primes", tl.fill[1]);
    R ().cls ("dirty-destination.previous-contents-NaN", tl.fill[2]);
    R ().cls ("dirty-destination.vector-dst-of-multVecMatrix/multDirMatrix", tl.vecdst);
    R ().cls ("dirty-destination.matrix-destination", tl.matdst);
    R ().cls ("dirty-destination.Matrix44::multiply(a,b,c)-c-prefilled", tl.multiply3);
    R ().cls ("dirty-destination.homogeneous-product-projective-last-column", tl.proj);
    R ().cls ("dirty-destination.homogeneous-product-affine-last-column", tl.affine);
    R ().cls ("dirty-destination.vector-base-type-differs-from-matrix", tl.mixed);
    R ().sample ("Vec3f dst(NaN,NaN,NaN); m.multVecMatrix((3/8,-5,0), dst) must be bitwise what it leaves in Vec3f(0,0,0)");
    R ().stage_done ("Matrix22::multDirMatrix, Matrix33::multVecMatrix/multDirMatrix x 9 matrices x {-p,0,p/8}^2, Matrix44::multVecMatrix/multDirMatrix x 9 matrices x {-p,0,p/8}^3 ((T,S) in {float,double}^2), "
                     "Matrix44::multiply(a,b,c) x 9^2 operand pairs, transposed / transpose of 22/33/44 x 9 matrices, outerProduct (Vec4, Vec3) x 81 x 21 operand pairs: each into a value-initialised destination and "
                     "into destinations pre-filled with primes / sign-flipped reversed primes / NaN in every slot, bitwise equal results");
}
