// C09 — shared helpers for the transform-builder harness (c09.cpp, c09_exact.cpp, c09_rot.cpp,
// c09_frames.cpp). Everything here is harness-side: small integer matrices, long double oracles,
// formatting of failing inputs.
#pragma once
#include "../engine/exact.hpp"
#include "../engine/report.hpp"
#include <ImathVec.h>
#include <ImathShear.h>
#include <ImathMatrix.h>
#include <ImathQuat.h>
#include <ImathMatrixAlgo.h>
#include <ImathFrame.h>

namespace c09 {
using namespace IMATH_NAMESPACE;
typedef long double LD;

template <class T> struct TN;
template <> struct TN<float>  { static const char* n () { return "float"; } };
template <> struct TN<double> { static const char* n () { return "double"; } };

// site = "<Class><<T>>::<rest>", e.g. "Matrix44<float>::translate.premultiply"
template <class T> inline std::string site (const char* cls, const std::string& rest)
{
    return std::string (cls) + "<" + TN<T>::n () + ">" + (rest.empty () ? "" : "::") + rest;
}
template <class T> inline LD EPS () { return (LD) std::numeric_limits<T>::epsilon (); }

// ---- small integer matrices (the exact alphabets) -----------------------------------------------
struct IM
{
    int         n;
    long long   a[4][4];
    std::string name;
};
inline IM im_identity (int n)
{
    IM m;
    m.n = n;
    for (int i = 0; i < 4; ++i)
        for (int j = 0; j < 4; ++j) m.a[i][j] = (i == j);
    m.name = "I";
    return m;
}
inline IM im_mul (const IM& s, const IM& m)
{
    IM r;
    r.n = s.n;
    for (int i = 0; i < 4; ++i)
        for (int j = 0; j < 4; ++j) r.a[i][j] = 0;
    for (int i = 0; i < s.n; ++i)
        for (int j = 0; j < s.n; ++j)
        {
            long long t = 0;
            for (int k = 0; k < s.n; ++k) t += s.a[i][k] * m.a[k][j];
            r.a[i][j] = t;
        }
    return r;
}
inline std::string im_str (const IM& m)
{
    std::string s = "[";
    for (int i = 0; i < m.n; ++i)
    {
        for (int j = 0; j < m.n; ++j) s += (j ? " " : "") + std::to_string (m.a[i][j]);
        s += (i + 1 < m.n) ? "; " : "]";
    }
    return s;
}

// The "current matrix" alphabet of DESIGN.md C09: identity, identity + 7*E_ij for every slot, three generic
// non-affine matrices of distinct primes (mixed signs), and lattice affine matrices.
std::vector<IM> current_matrices (int n, bool all_affine);

template <class T> inline Matrix44<T> mk44 (const IM& m)
{
    Matrix44<T> r;
    for (int i = 0; i < 4; ++i)
        for (int j = 0; j < 4; ++j) r.x[i][j] = (T) m.a[i][j];
    return r;
}
template <class T> inline Matrix33<T> mk33 (const IM& m)
{
    Matrix33<T> r;
    for (int i = 0; i < 3; ++i)
        for (int j = 0; j < 3; ++j) r.x[i][j] = (T) m.a[i][j];
    return r;
}
template <class T> inline Matrix22<T> mk22 (const IM& m)
{
    Matrix22<T> r;
    for (int i = 0; i < 2; ++i)
        for (int j = 0; j < 2; ++j) r.x[i][j] = (T) m.a[i][j];
    return r;
}

// ---- formatting ---------------------------------------------------------------------------------
template <class T, int N> inline std::string mat_str (const T (&x)[N][N])
{
    std::string s = "[";
    for (int i = 0; i < N; ++i)
    {
        for (int j = 0; j < N; ++j) s += (j ? " " : "") + vf::fmt (x[i][j]);
        s += (i + 1 < N) ? "; " : "]";
    }
    return s;
}
template <class T> inline std::string v3 (const Vec3<T>& v)
{
    return "(" + vf::fmt (v.x) + "," + vf::fmt (v.y) + "," + vf::fmt (v.z) + ")";
}
inline std::string i3 (const int* v) { return "(" + std::to_string (v[0]) + "," + std::to_string (v[1]) + "," + std::to_string (v[2]) + ")"; }
inline std::string i2 (const int* v) { return "(" + std::to_string (v[0]) + "," + std::to_string (v[1]) + ")"; }
inline std::string ld3 (const LD* v) { return "(" + vf::fmt (v[0]) + "," + vf::fmt (v[1]) + "," + vf::fmt (v[2]) + ")"; }

// exact comparison of a T-valued N x N array with an integer matrix (by value; the sign of zero is
// not part of the property)
template <class T, int N> inline bool eq_int (const T (&x)[N][N], const IM& e)
{
    for (int i = 0; i < N; ++i)
        for (int j = 0; j < N; ++j)
            if (!(x[i][j] == (T) e.a[i][j])) return false;
    return true;
}

// ---- angles -------------------------------------------------------------------------------------
template <class T> struct Ang
{
    T           a;    // the angle handed to the library (already rounded to T)
    LD          c, s; // cosl / sinl of exactly that T value
    std::string name;
    bool        tiny; // +-10^-j family
    int         k;    // multiple of pi/12 (0 for the tiny family)
};
template <class T> inline std::vector<Ang<T>> angle_set ()
{
    std::vector<Ang<T>> v;
    const LD            PI = acosl (-1.0L);
    for (int k = -48; k <= 48; ++k)
    {
        Ang<T> g;
        g.a = (T) (k * PI / 12);
        g.c = cosl ((LD) g.a);
        g.s = sinl ((LD) g.a);
        g.name = std::to_string (k) + "*pi/12=" + vf::fmt (g.a);
        g.tiny = false;
        g.k    = k;
        v.push_back (g);
    }
    for (int j = 1; j <= 15; ++j)
        for (int sg = -1; sg <= 1; sg += 2)
        {
            Ang<T> g;
            g.a = (T) (sg * powl (10.0L, -j));
            g.c = cosl ((LD) g.a);
            g.s = sinl ((LD) g.a);
            g.name = std::string (sg < 0 ? "-" : "+") + "1e-" + std::to_string (j) + "=" + vf::fmt (g.a);
            g.tiny = true;
            g.k    = 0;
            v.push_back (g);
        }
    return v;
}

// ---- long double 3x3 helpers ----------------------------------------------------------------------
inline void cross3 (const LD* a, const LD* b, LD* r)
{
    r[0] = a[1] * b[2] - a[2] * b[1];
    r[1] = a[2] * b[0] - a[0] * b[2];
    r[2] = a[0] * b[1] - a[1] * b[0];
}
inline LD dot3 (const LD* a, const LD* b) { return a[0] * b[0] + a[1] * b[1] + a[2] * b[2]; }
inline LD len3 (const LD* a) { return sqrtl (dot3 (a, a)); }
inline bool unit3 (const LD* a, LD* r)
{
    LD l = len3 (a);
    if (l == 0) { r[0] = r[1] = r[2] = 0; return false; }
    r[0] = a[0] / l; r[1] = a[1] / l; r[2] = a[2] / l;
    return true;
}
inline LD det3 (const LD m[3][3])
{
    return m[0][0] * (m[1][1] * m[2][2] - m[1][2] * m[2][1]) - m[0][1] * (m[1][0] * m[2][2] - m[1][2] * m[2][0]) +
           m[0][2] * (m[1][0] * m[2][1] - m[1][1] * m[2][0]);
}

// Checks that the upper-left 3x3 of `m` is orthonormal and right-handed to `tol` (absolute, on every
// entry of R R^T - I and on det - 1) and that the fourth column is (0,0,0,1) exactly. Returns "" if
// fine, otherwise a description.
template <class T> inline std::string frame_defect (const Matrix44<T>& m, LD tol, LD* worst = nullptr)
{
    LD r[3][3];
    for (int i = 0; i < 3; ++i)
        for (int j = 0; j < 3; ++j)
        {
            r[i][j] = (LD) m.x[i][j];
            if (!(m.x[i][j] == m.x[i][j])) return "NaN entry";
        }
    LD w = 0;
    for (int i = 0; i < 3; ++i)
        for (int k = i; k < 3; ++k)
        {
            LD d = fabsl (dot3 (r[i], r[k]) - (i == k ? 1 : 0));
            if (d > w) w = d;
        }
    LD dd = fabsl (det3 (r) - 1);
    if (dd > w) w = dd;
    if (worst) *worst = w;
    if (!(m.x[0][3] == 0 && m.x[1][3] == 0 && m.x[2][3] == 0 && m.x[3][3] == 1)) return "fourth column is not (0,0,0,1)";
    if (!(w <= tol)) return "max |R R^T - I|, |det-1| = " + vf::fmt (w) + " > tol " + vf::fmt (tol);
    return "";
}

// stage entry points (one per TU)
void run_exact ();
void run_rotations ();
void run_frames ();
void run_frames_scaled (); // c09_scaled.cpp: stages frames-scaled, nextframe-general
void run_ext ();           // c09_ext.cpp: stages aliased-arguments, rotations-mixed-base, rotations-big-angles
void run_dirty ();         // c09_dirty.cpp: stage set-on-dirty-object

} // namespace c09
