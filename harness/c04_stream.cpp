// C04: stream output of every (class template, non-character element type)
#include "c04.hpp"
namespace c04 {
void register_stream (Jobs& jobs)
{
#define C04_X(T) C04_JOB (ST_STREAM, stream_test<Vec2<T>> (t); stream_test<Vec3<T>> (t); stream_test<Vec4<T>> (t));
    C04_X (short) C04_X (int) C04_X (int64_t) C04_X (half) C04_X (float) C04_X (double)
#undef C04_X
    C04_JOB (ST_STREAM, stream_test<Color3<half>> (t); stream_test<Color3<float>> (t); stream_test<Color4<half>> (t); stream_test<Color4<float>> (t));
    C04_JOB (ST_STREAM, stream_test<Shear6<float>> (t); stream_test<Shear6<double>> (t); stream_test<Quat<float>> (t); stream_test<Quat<double>> (t));
    C04_JOB (ST_STREAM, stream_test<Matrix22<float>> (t); stream_test<Matrix22<double>> (t); stream_test<Matrix33<float>> (t); stream_test<Matrix33<double>> (t);
             stream_test<Matrix44<float>> (t); stream_test<Matrix44<double>> (t));
}
}
