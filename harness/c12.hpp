// C12 — shared declarations of the factorisation harness (see c12.cpp for the overview).
#pragma once
#include "c11_ref.hpp"
#include <ImathEuler.h>
#include <ImathMatrix.h>
#include <ImathMatrixAlgo.h>
#include <ImathVec.h>
#include <stdexcept>

namespace c12 {

using namespace IMATH_NAMESPACE;
using ref::LD;
using ref::M2;
using ref::M3;
using ref::M4;

// ---- 3-D affine matrix M = S*H*R*T built by the harness in long double ----------------------------
// H is the library's documented shear matrix for a Vec3 (xy,xz,yz): unit lower triangular with
// H[1][0]=xy, H[2][0]=xz, H[2][1]=yz; row-vector convention, so S*H*R*T applies S first.
struct Shrt3
{
    LD s[3], h[3], t[3];
    M3 R;
};
inline M3 shearMat (const LD h[3])
{
    M3 H;
    H[1][0] = h[0]; H[2][0] = h[1]; H[2][1] = h[2];
    return H;
}
inline M3 diagMat (const LD s[3])
{
    M3 S;
    for (int i = 0; i < 3; ++i) S[i][i] = s[i];
    return S;
}
inline M4 affine (const M3& lin, const LD t[3])
{
    M4 m;
    for (int i = 0; i < 3; ++i) { for (int j = 0; j < 3; ++j) m[i][j] = lin[i][j]; m[3][i] = t[i]; }
    return m;
}
inline M3 linOf (const Shrt3& f) { return ref::mul (ref::mul (diagMat (f.s), shearMat (f.h)), f.R); }

// The factorisation S*H*R with H unit lower triangular, R a proper rotation and all scales of one
// sign is unique. With d_i = sign(s_i), sigma = d_0 d_1 d_2:  S*H*R = (sigma|S|) * (D H D) * (sigma D R).
inline Shrt3 canonical (const Shrt3& f)
{
    Shrt3 c = f;
    LD    d[3], sg = 1;
    for (int i = 0; i < 3; ++i) { d[i] = f.s[i] < 0 ? -1.0L : 1.0L; sg *= d[i]; }
    for (int i = 0; i < 3; ++i) c.s[i] = sg * fabsl (f.s[i]);
    c.h[0] = f.h[0] * d[1] * d[0];
    c.h[1] = f.h[1] * d[2] * d[0];
    c.h[2] = f.h[2] * d[2] * d[1];
    for (int i = 0; i < 3; ++i) for (int j = 0; j < 3; ++j) c.R[i][j] = sg * d[i] * f.R[i][j];
    return c;
}
inline LD cond3 (const Shrt3& f)
{
    LD mx = 0, mn = INFINITY;
    for (int i = 0; i < 3; ++i) { mx = std::max (mx, fabsl (f.s[i])); mn = std::min (mn, fabsl (f.s[i])); }
    return mx / mn * (1 + fabsl (f.h[0]) + fabsl (f.h[1]) + fabsl (f.h[2]));
}

template <class T> inline Matrix44<T> toLib44 (const M4& m)
{
    Matrix44<T> r;
    for (int i = 0; i < 4; ++i) for (int j = 0; j < 4; ++j) r[i][j] = (T) m[i][j];
    return r;
}
template <class T> inline Matrix33<T> toLib33 (const M3& m)
{
    Matrix33<T> r;
    for (int i = 0; i < 3; ++i) for (int j = 0; j < 3; ++j) r[i][j] = (T) m[i][j];
    return r;
}
template <int N, class LM> inline bool sameMat (const LM& a, const LM& b)
{
    for (int i = 0; i < N; ++i) for (int j = 0; j < N; ++j) if (!ex::same (a[i][j], b[i][j])) return false;
    return true;
}
template <class V> inline bool sameVec (const V& a, const V& b)
{
    for (unsigned i = 0; i < V::dimensions (); ++i) if (!ex::same (a[i], b[i])) return false;
    return true;
}
template <class V> inline std::string fmtVec (const V& a)
{
    vf::Msg m;
    m << "(";
    for (unsigned i = 0; i < V::dimensions (); ++i) m << (i ? " " : "") << a[i];
    m << ")";
    return m.str ();
}
template <class V> inline bool finiteVec (const V& a)
{
    for (unsigned i = 0; i < V::dimensions (); ++i) if (!std::isfinite ((double) a[i])) return false;
    return true;
}

// A failing relation on a genuine defect fails for hundreds of thousands of cases; formatting every input
// would serialise the run on the report mutex. Each thread formats its first 6 failures per site in full (the
// 4 that the report keeps are therefore always complete: they are the first 4 calls overall) and only counts
// the rest. The count stays exact.
template <class InF, class ExpF, class GotF> inline void failThrottled (const std::string& site, InF&& in, ExpF&& exp, GotF&& got)
{
    static thread_local std::map<std::string, int> seen;
    if (seen[site]++ < 6) vf::R ().fail (site, in (), exp (), got ());
    else vf::R ().fail (site, "(not formatted: see the first cases)", "", "");
}

void stage_shrt3d_float (int part);   // c12_shrt3d_f.cpp
void stage_shrt3d_double (int part);  // c12_shrt3d_d.cpp
void stage_shrt2d ();         // c12_shrt2d.cpp
void stage_svd ();            // c12_svd.cpp
void stage_eigen ();          // c12_eigen.cpp
void stage_procrustes ();     // c12_procrustes.cpp
void stage_dirty ();          // c12_dirty.cpp

} // namespace c12
