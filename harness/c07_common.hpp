// C07 — shared pieces of the differential (checked vs unchecked) harness.
#pragma once
#include "../engine/exact.hpp"
#include "../engine/report.hpp"
#include <algorithm>
#include <cfloat>
#include <limits>
#include <stdexcept>
#include <typeinfo>

namespace c07 {

using vf::Msg;
using vf::R;

template <class T> inline const char* tname ();
template <> inline const char* tname<float> () { return "float"; }
template <> inline const char* tname<double> () { return "double"; }

// ---- which exception (exact dynamic type, via typeid) -----------------------------------------
enum Thrown { NONE = 0, DOMAIN_ERROR = 1, INVALID_ARGUMENT = 2, OTHER_STD = 3, NON_STD = 4 };
inline const char* thrown_name (int t)
{
    static const char* n[] = {"(returned)", "std::domain_error", "std::invalid_argument", "another std::exception", "non-std exception"};
    return n[t];
}
template <class F> inline int run_checked (F&& f)
{
    try { f (); return NONE; }
    catch (const std::exception& e)
    {
        if (typeid (e) == typeid (std::domain_error)) return DOMAIN_ERROR;
        if (typeid (e) == typeid (std::invalid_argument)) return INVALID_ARGUMENT;
        return OTHER_STD;
    }
    catch (...) { return NON_STD; }
}

// ---- bit comparison: identical bits, except that a NaN matches a NaN.  (Both members of a pair perform
// the same IEEE operations, but which operand's sign/payload a NaN result inherits is decided by operand
// order in the instruction, which the compiler may legally choose differently in the two copies.)
template <class T> inline bool same_bits (T a, T b)
{
    if (a != a || b != b) return (a != a) && (b != b);
    return memcmp (&a, &b, sizeof (T)) == 0;
}

template <class T> inline T tmax () { return std::numeric_limits<T>::max (); }
template <class T> inline T tmin () { return std::numeric_limits<T>::min (); }
template <class T> inline T tden () { return std::numeric_limits<T>::denorm_min (); }
template <class T> inline T teps () { return std::numeric_limits<T>::epsilon (); }
template <class T> inline T up (T x) { return std::nextafter (x, std::numeric_limits<T>::infinity ()); }
template <class T> inline T down (T x) { return std::nextafter (x, -std::numeric_limits<T>::infinity ()); }
template <class T> inline bool is_pow2_or_zero (T x)
{
    if (x == 0) return true;
    int e;
    return std::frexp (std::fabs (x), &e) == T (0.5);
}

// ---- guard alphabets (DESIGN.md C07): for a guard  |a| < 1 && |b| >(=) max*|a|
//   a in {0, denorm_min, largest subnormal, min, 2^-k (graded), 1-ulp, 1, 1+ulp, 2, generic 3, 0.75, 0.1}
//   b in {0, denorm_min, min, 1, generic 3, max*a*(1-ulp), max*a, max*a*(1+ulp), max/2, max}
// positive values only; callers add signs.  Everything finite.
template <class T> inline std::vector<T> alpha_a ()
{
    std::vector<T> a = {T (0), tden<T> (), down (tmin<T> ()), tmin<T> (), up (tmin<T> ()), T (2) * tmin<T> (),
                        down (T (1)), T (1), up (T (1)), T (2), T (3), T (0.75), T (0.1)};
    const int D = std::numeric_limits<T>::digits; // 24 / 53
    const int E = -std::numeric_limits<T>::min_exponent + 1; // 126 / 1022
    int ks[] = {1, 2, 10, D - 1, D, 2 * D, 64, 100, E / 2, E - 2, E - 1, E + 1, E + D - 3};
    for (int k : ks)
    {
        T v = std::ldexp (T (1), -k);
        if (v > 0) a.push_back (v);
    }
    // thresholds of guards with a constant numerator 2 (orthographic projection): a* = 2/max and neighbours
    T two_over_max = T (2) / tmax<T> ();
    a.push_back (down (two_over_max)); a.push_back (two_over_max); a.push_back (up (two_over_max)); a.push_back (up (up (two_over_max)));
    std::sort (a.begin (), a.end ());
    a.erase (std::unique (a.begin (), a.end ()), a.end ());
    return a;
}
template <class T> inline std::vector<T> alpha_b (T a)
{
    std::vector<T> b = {T (0), tden<T> (), tmin<T> (), T (1), T (3), tmax<T> () / 2, down (tmax<T> ()), tmax<T> ()};
    T m = tmax<T> () * std::fabs (a);
    if (std::isfinite (m))
    {
        b.push_back (m);
        if (m > 0) b.push_back (down (m));
        if (std::isfinite (up (m))) b.push_back (up (m));
        // the same threshold for a numerator that is doubled/halved by the formula (2*near, 2*p.x, 2*depth)
        b.push_back (m / 2);
        if (m / 2 > 0) b.push_back (down (m / 2));
        b.push_back (up (m / 2));
    }
    std::sort (b.begin (), b.end ());
    b.erase (std::unique (b.begin (), b.end ()), b.end ());
    return b;
}
// with both signs
template <class T> inline std::vector<T> signed_all (const std::vector<T>& v)
{
    std::vector<T> r;
    for (T x : v) { r.push_back (x); r.push_back (-x); }
    return r;
}

// boundary alphabet of finite values used for "everything else" slots of the Frustum / matrix stages
template <class T> inline std::vector<T> alpha_v (bool rich)
{
    std::vector<T> v = {T (0), tden<T> (), tmin<T> (), T (0.25), down (T (1)), T (1), T (2), T (3), std::ldexp (T (1), std::numeric_limits<T>::max_exponent / 2), tmax<T> ()};
    if (rich)
    {
        v.push_back (std::ldexp (T (1), -std::numeric_limits<T>::digits)); v.push_back (up (T (1))); v.push_back (std::ldexp (T (1), std::numeric_limits<T>::digits));
        v.push_back (tmax<T> () / 2);
    }
    return v;
}

// ---- a quotient the operation performs: numerator and denominator as the documented formula evaluates
// them in T.  `exact_num/exact_den` (long double, from the inputs) are optional second opinions.
template <class T> struct Quot
{
    T num, den;
};
template <class T> struct QuotJudgement
{
    bool justified = false;  // some quotient has zero denominator, non-finite numerator, or magnitude >= max/4
    bool benign    = true;   // every quotient has non-zero denominator and magnitude <= max/8
    bool overflow  = false;  // some division of two finite operands yields a non-finite T (overflow or x/0)
    bool zero_over_zero = false;
};
template <class T> inline QuotJudgement<T> judge_quotients (const Quot<T>* q, int n)
{
    QuotJudgement<T> j;
    const long double M = (long double) tmax<T> ();
    for (int i = 0; i < n; ++i)
    {
        long double num = (long double) q[i].num, den = (long double) q[i].den;
        if (den == 0 || !std::isfinite (q[i].num) || !std::isfinite (q[i].den)) { j.justified = true; j.benign = false; }
        else
        {
            long double m = fabsl (num / den);
            if (m >= M / 4) j.justified = true;
            if (!(m <= M / 8)) j.benign = false;
        }
        if (std::isfinite (q[i].num) && std::isfinite (q[i].den))
        {
            T r = q[i].num / q[i].den;
            if (!std::isfinite (r))
            {
                if (q[i].num == 0 && q[i].den == 0) j.zero_over_zero = true;
                else j.overflow = true;
            }
        }
    }
    return j;
}

// ---- stage entry points (one per TU) -------------------------------------------------------------
void stage_normalize_family ();
void stage_vec3_from_vec4 ();
void stage_inverse ();
void stage_frustum ();
void stage_decomposition ();

} // namespace c07
