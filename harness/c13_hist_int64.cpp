// C13 history (BFS) stage, element type int64_t
#include "c13_hist.hpp"
namespace c13 { template bool run_histories<int64_t> (bool); }
