// C13 extreme-bounds stage, float and double
#include "c13_extreme.hpp"
namespace c13 {
template bool run_extremes<float> (bool);
template bool run_extremes<double> (bool);
}
