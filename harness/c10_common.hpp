// C10 — shared helpers for the quaternion / matrix / axis-angle consistency harness
// (c10.cpp, c10_unit.cpp, c10_setrot.cpp, c10_slerp.cpp).
#pragma once
#include "../engine/exact.hpp"
#include "../engine/report.hpp"
#include <ImathVec.h>
#include <ImathMatrix.h>
#include <ImathQuat.h>
#include <ImathMatrixAlgo.h>

namespace c10 {
using namespace IMATH_NAMESPACE;
typedef long double LD;

template <class T> struct TN;
template <> struct TN<float>  { static const char* n () { return "float"; } };
template <> struct TN<double> { static const char* n () { return "double"; } };
template <class T> inline std::string site (const char* cls, const std::string& rest)
{
    return std::string (cls) + "<" + TN<T>::n () + ">" + (rest.empty () ? "" : "::") + rest;
}
template <class T> inline LD EPS () { return (LD) std::numeric_limits<T>::epsilon (); }

// ---- reference quaternion algebra, written from the definition (Hamilton product) -------------------
struct Q
{
    LD w, x, y, z;
};
inline Q qmul (const Q& a, const Q& b)
{
    // (a0 + a)(b0 + b) = a0 b0 - a.b + a0 b + b0 a + a x b
    Q r;
    r.w = a.w * b.w - (a.x * b.x + a.y * b.y + a.z * b.z);
    r.x = a.w * b.x + b.w * a.x + (a.y * b.z - a.z * b.y);
    r.y = a.w * b.y + b.w * a.y + (a.z * b.x - a.x * b.z);
    r.z = a.w * b.z + b.w * a.z + (a.x * b.y - a.y * b.x);
    return r;
}
inline Q  qconj (const Q& a) { return Q{a.w, -a.x, -a.y, -a.z}; }
inline LD qdot (const Q& a, const Q& b) { return a.w * b.w + a.x * b.x + a.y * b.y + a.z * b.z; }
inline LD qnorm (const Q& a) { return sqrtl (qdot (a, a)); }
inline Q  qscale (const Q& a, LD s) { return Q{a.w * s, a.x * s, a.y * s, a.z * s}; }
inline Q  qadd (const Q& a, const Q& b) { return Q{a.w + b.w, a.x + b.x, a.y + b.y, a.z + b.z}; }
inline Q  qunit (const Q& a) { LD n = qnorm (a); return n > 0 ? qscale (a, 1 / n) : a; }
// rotation of v by the unit quaternion q/|q|:  q v q* / |q|^2
inline void qrot (const Q& q, const LD* v, LD* r)
{
    Q p = qmul (qmul (q, Q{0, v[0], v[1], v[2]}), qconj (q));
    LD n2 = qdot (q, q);
    r[0] = p.x / n2; r[1] = p.y / n2; r[2] = p.z / n2;
}
// the matrix M with  v * M = rotated v  (row i = image of e_i)
inline void qmat (const Q& q, LD m[3][3])
{
    for (int i = 0; i < 3; ++i)
    {
        LD e[3] = {0, 0, 0};
        e[i]    = 1;
        qrot (q, e, m[i]);
    }
}
// angle between two quaternions as 4-D vectors, in [0, pi]
inline LD qangle (const Q& a, const Q& b)
{
    Q d = qadd (a, qscale (b, -1)), s = qadd (a, b);
    return 2 * atan2l (qnorm (d), qnorm (s));
}
template <class T> inline Q toQ (const Quat<T>& q) { return Q{(LD) q.r, (LD) q.v.x, (LD) q.v.y, (LD) q.v.z}; }
inline LD qmaxdiff (const Q& a, const Q& b)
{
    return std::max (std::max (fabsl (a.w - b.w), fabsl (a.x - b.x)), std::max (fabsl (a.y - b.y), fabsl (a.z - b.z)));
}
inline bool qfinite (const Q& a) { return std::isfinite ((double) a.w) && std::isfinite ((double) a.x) && std::isfinite ((double) a.y) && std::isfinite ((double) a.z); }

// ---- formatting -------------------------------------------------------------------------------------------
template <class T> inline std::string qs (const Quat<T>& q)
{
    return "(" + vf::fmt (q.r) + " " + vf::fmt (q.v.x) + " " + vf::fmt (q.v.y) + " " + vf::fmt (q.v.z) + ")";
}
inline std::string qs (const Q& q) { return "(" + vf::fmt (q.w) + " " + vf::fmt (q.x) + " " + vf::fmt (q.y) + " " + vf::fmt (q.z) + ")"; }
template <class T> inline std::string v3 (const Vec3<T>& v) { return "(" + vf::fmt (v.x) + "," + vf::fmt (v.y) + "," + vf::fmt (v.z) + ")"; }
inline std::string i3 (const int* v) { return "(" + std::to_string (v[0]) + "," + std::to_string (v[1]) + "," + std::to_string (v[2]) + ")"; }
inline std::string i4 (const int* v) { return "(" + std::to_string (v[0]) + "," + std::to_string (v[1]) + "," + std::to_string (v[2]) + "," + std::to_string (v[3]) + ")"; }
inline std::string ld3 (const LD* v) { return "(" + vf::fmt (v[0]) + "," + vf::fmt (v[1]) + "," + vf::fmt (v[2]) + ")"; }
template <class T, int N> inline std::string mat_str (const T (&x)[N][N])
{
    std::string s = "[";
    for (int i = 0; i < N; ++i)
    {
        for (int j = 0; j < N; ++j) s += (j ? " " : "") + vf::fmt (x[i][j]);
        s += (i + 1 < N) ? "; " : "]";
    }
    return s;
}

// ---- alphabets ------------------------------------------------------------------------------------------------
// Binary tetrahedral group, components doubled: 8 elements +-2 e_k and 16 elements (+-1,+-1,+-1,+-1).
struct G2 { int c[4]; };
inline std::vector<G2> tetra_group ()
{
    std::vector<G2> g;
    for (int k = 0; k < 4; ++k)
        for (int s = -1; s <= 1; s += 2)
        {
            G2 e = {{0, 0, 0, 0}};
            e.c[k] = 2 * s;
            g.push_back (e);
        }
    for (int m = 0; m < 16; ++m)
    {
        G2 e;
        for (int k = 0; k < 4; ++k) e.c[k] = (m >> k & 1) ? -1 : 1;
        g.push_back (e);
    }
    return g;
}
template <class T> inline Quat<T> fromG2 (const G2& g) { return Quat<T> ((T) g.c[0] / 2, (T) g.c[1] / 2, (T) g.c[2] / 2, (T) g.c[3] / 2); }

// integer 4-vectors of L(r)^4 \ 0
inline std::vector<G2> lattice4 (int r)
{
    std::vector<G2> v;
    const unsigned  b = 2 * r + 1;
    for (uint64_t i = 0; i < ex::ipow (b, 4); ++i)
    {
        G2 e;
        ex::decode (i, b, 4, e.c, -r);
        if (e.c[0] || e.c[1] || e.c[2] || e.c[3]) v.push_back (e);
    }
    return v;
}

// stage entry points
void run_group ();
void run_unit ();
void run_rounding ();
void run_repeated_keys ();
void run_setrotation ();
void run_slerp ();
void run_reused (); // c10_dirty.cpp: stage reused-objects

} // namespace c10
