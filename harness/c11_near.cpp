// C11 — angleMod, simpleXYZRotation, nearestRotation, makeNear.
//
// "To single precision" (property statement): angleMod returns a float whatever T is, and reduces
// with fmod by the T-rounded 2*pi. A-priori error model, eps_f = 2^-23:
//   fmod is exact w.r.t. fl_T(2pi); |fl_float(2pi) - 2pi| = 1.47 eps_f (double: 2.4e-16), so after q
//   whole turns the reduced angle is off by <= (|q|+2) * 1.47 eps_f; the final float rounding of a
//   value <= pi adds <= eps_f  ->  |angleMod(a) - (a mod 2pi)| <= eps_f * (8 + 2|n|), n = a/(2pi) rounded.
//   The result is a value of [-fl(pi), fl(pi)] rounded monotonically, so |result| <= (float) pi exactly.
// simpleXYZRotation computes t + angleMod(fl_T(x - t)) per component:
//   delta(x,t) = ulp_T(|x|+|t|)/2 + eps_f*(8 + 2|n|) + ulp_T(|t|+pi)/2, |result - t| <= fl(pi) + ulp_T(|t|+pi)/2.
// nearestRotation / makeNear may additionally replace (a_i,a_j,a_k) by (pi+a_i, pi-a_j, pi+a_k) (one rounding
// each at magnitude <= |t|+2pi) and run simpleXYZRotation again on that (|x| <= |t|+2pi, n <= 1).
// A change delta_i of the three angles moves every entry of the rotation matrix by <= sum delta_i.
#include "c11.hpp"

namespace c11 {
using vf::R;

static const LD EPSF = 1.1920928955078125e-7L; // 2^-23

template <class T> static LD simpleDelta (LD x, LD t)
{
    LD n = floorl (fabsl (x - t) / (2 * ref::PI_LD) + 0.5L);
    return ex::ulp_at<T> (fabsl (x) + fabsl (t)) / 2 + EPSF * (8 + 2 * n) + ex::ulp_at<T> (fabsl (t) + ref::PI_LD) / 2;
}
template <class T> static LD nearestDelta (LD x, LD t)
{
    LD big = fabsl (t) + 2 * ref::PI_LD;
    return simpleDelta<T> (x, t) + ex::ulp_at<T> (big) / 2 + (ex::ulp_at<T> (big + fabsl (t)) / 2 + EPSF * 10 + ex::ulp_at<T> (fabsl (t) + ref::PI_LD) / 2);
}
template <class T> static LD closeBound (LD t)
{
    return (LD) (float) ref::PI_LD + ex::ulp_at<T> (fabsl (t) + ref::PI_LD) / 2;
}

// ---------------------------------------------------------------------------------------------
template <class T> static void angleMod_T (long long& n, long long cls[4])
{
    typedef Euler<T> E;
    const int        jmax = sizeof (T) == 4 ? 7 : 15;
    const float      PIF  = (float) ref::PI_LD;
    double           worst = 0;
    for (int k = -1200; k <= 1200; ++k)
        for (int oi = 0; oi <= 2 * jmax; ++oi)
        {
            LD off = 0;
            if (oi > 0) { int j = (oi + 1) / 2; off = powl (10.0L, -(LD) j); if (oi % 2 == 0) off = -off; }
            T     a = (T) ((LD) k * ref::PI_LD / 6 + off);
            float r = E::angleMod (a);
            ++n;
            std::string in = vf::Msg () << "T=" << ref::tname<T> () << " angle=" << a;
            if (!(fabsf (r) <= PIF)) R ().fail ("Euler::angleMod.range", in, "|result| <= (float)pi", vf::Msg () << r);
            LD turns = floorl ((LD) a / (2 * ref::PI_LD) + 0.5L);
            LD err   = INFINITY;
            for (int m = -1; m <= 1; ++m) err = std::min (err, fabsl ((LD) r - ((LD) a - 2 * ref::PI_LD * (turns + m))));
            LD tol = EPSF * (8 + 2 * fabsl (turns));
            worst  = std::max (worst, (double) (err / tol));
            if (!(err <= tol)) R ().fail ("Euler::angleMod.congruent-mod-2pi", in, "within " + ref::fmtE (tol), vf::Msg () << r << " (off by " << ref::fmtE (err) << ")");
            // branch classes, by the true remainder of the input
            LD m0 = fmodl ((LD) a, 2 * ref::PI_LD);
            if (fabsl (fabsl (m0) - ref::PI_LD) < 1e-6L) ++cls[3];
            else if (m0 < -ref::PI_LD) ++cls[0];
            else if (m0 > ref::PI_LD) ++cls[1];
            else ++cls[2];
        }
    R ().note_max (std::string ("worst angleMod error / bound (") + ref::tname<T> () + ")", worst);
}

void stage_angleMod ()
{
    if (!R ().stage ("angleMod")) return;
    long long n = 0, cls[4] = {0, 0, 0, 0};
    angleMod_T<float> (n, cls);
    angleMod_T<double> (n, cls);
    R ().add ("states", n);
    R ().add ("transitions", 2 * n);
    R ().add ("evaluations", n);
    R ().cls ("angleMod.remainder-below-minus-pi", cls[0]);
    R ().cls ("angleMod.remainder-above-pi", cls[1]);
    R ().cls ("angleMod.no-wrap.generic", cls[2]);
    R ().cls ("angleMod.remainder-within-1e-6-of-+-pi", cls[3]);
    R ().stage_done ("k*pi/6 + {0,+-10^-j}, k in [-1200,1200] (100 turns each way), j = 1..7 (float) / 1..15 (double)");
}

// ---------------------------------------------------------------------------------------------
struct NearTally
{
    long long simple = 0, nearest = 0, mk_same = 0, mk_other = 0, alt_closer = 0, diff_pi_tie = 0;
    long long mk_any[4] = {0, 0, 0, 0}; // target order class: static-nonrepeated, static-repeated, rotating-nonrepeated, rotating-repeated
    double    w_rot = 0, w_close = 0;
};

template <class T> static bool near_T (const std::vector<int>& K1, const std::vector<int>& K2, NearTally& G)
{
    typedef Euler<T>          E;
    typedef typename E::Order Ord;
    const uint64_t            n1 = K1.size () * K1.size () * K1.size (), n2 = K2.size () * K2.size () * K2.size ();
    std::mutex                mu;
    const bool                allTargets = R ().thorough ();
    bool ok = vf::parallel_chunks (n1 * n2, n2, [&] (uint64_t lo, uint64_t hi, unsigned) {
        NearTally l;
        for (uint64_t idx = lo; idx < hi; ++idx)
        {
            int d1[3], d2[3];
            ex::decode (idx / n2, (unsigned) K1.size (), 3, d1);
            ex::decode (idx % n2, (unsigned) K2.size (), 3, d2);
            Vec3<T> x (gridAngle<T> (K1[d1[0]]), gridAngle<T> (K1[d1[1]]), gridAngle<T> (K1[d1[2]]));
            Vec3<T> t (gridAngle<T> (K2[d2[0]]), gridAngle<T> (K2[d2[1]]), gridAngle<T> (K2[d2[2]]));
            auto in = [&] (const char* extra) {
                return (vf::Msg () << "T=" << ref::tname<T> () << " " << extra << " xyzRot=(" << x.x << " " << x.y << " " << x.z << ") target=(" << t.x << " " << t.y << " " << t.z << ")").str ();
            };
            for (int c = 0; c < 3; ++c)
                if (fabsl (fabsl (fmodl ((LD) x[c] - (LD) t[c], 2 * ref::PI_LD)) - ref::PI_LD) < 1e-5L) { ++l.diff_pi_tie; break; }

            // --- simpleXYZRotation: per-component congruence and closeness
            {
                Vec3<T> o = x;
                E::simpleXYZRotation (o, t);
                ++l.simple;
                for (int c = 0; c < 3; ++c)
                {
                    LD dl  = simpleDelta<T> (x[c], t[c]);
                    LD df  = (LD) o[c] - (LD) x[c];
                    LD err = fabsl (df - 2 * ref::PI_LD * floorl (df / (2 * ref::PI_LD) + 0.5L));
                    if (!(err <= dl)) R ().fail ("Euler::simpleXYZRotation.congruent-mod-2pi", in (""), "component " + std::to_string (c) + " within " + ref::fmtE (dl), vf::Msg () << o[c] << " (off by " << ref::fmtE (err) << ")");
                    LD cl = fabsl ((LD) o[c] - (LD) t[c]);
                    l.w_close = std::max (l.w_close, (double) (cl / ref::PI_LD));
                    if (!(cl <= closeBound<T> (t[c]))) R ().fail ("Euler::simpleXYZRotation.within-pi-of-target", in (""), "component " + std::to_string (c) + " within pi", vf::Msg () << o[c] << " (|diff| = " << ref::fmtE (cl) << ")");
                }
            }
            LD dsum = 0;
            for (int c = 0; c < 3; ++c) dsum += nearestDelta<T> (x[c], t[c]);

            for (int oi = 0; oi < 6; ++oi)
            {
                const OrderInfo& O   = ORDERS[oi];
                Ord              ord = (Ord) O.value;
                const M3         R0  = xyzLayoutRef (O, x.x, x.y, x.z);
                // --- nearestRotation (vectors indexed by axis, as makeNear passes them)
                {
                    Vec3<T> o = x;
                    E::nearestRotation (o, t, ord);
                    ++l.nearest;
                    LD d = ref::maxdiff (xyzLayoutRef (O, o.x, o.y, o.z), R0);
                    l.w_rot = std::max (l.w_rot, (double) (d / dsum));
                    if (!(d <= dsum))
                        R ().fail ("Euler::nearestRotation.keeps-rotation", in (O.name), "rotation unchanged within " + ref::fmtE (dsum), vf::Msg () << "(" << o.x << " " << o.y << " " << o.z << ") changes it by " << ref::fmtE (d));
                    for (int c = 0; c < 3; ++c)
                    {
                        LD cl = fabsl ((LD) o[c] - (LD) t[c]);
                        if (!(cl <= closeBound<T> (t[c]))) R ().fail ("Euler::nearestRotation.within-pi-of-target", in (O.name), "component " + std::to_string (c) + " within pi", vf::Msg () << o[c] << " (|diff| = " << ref::fmtE (cl) << ")");
                    }
                    // input class: the alternative triple is strictly the closer one (by the definition, in long double)
                    int ax[3];
                    O.nameAxes (ax);
                    auto wrap = [] (LD v) { return v - 2 * ref::PI_LD * floorl (v / (2 * ref::PI_LD) + 0.5L); };
                    LD   dm = 0, om = 0;
                    for (int s = 0; s < 3; ++s)
                    {
                        int a = ax[s];
                        LD  alt = (s == 1) ? ref::PI_LD - (LD) x[a] : ref::PI_LD + (LD) x[a];
                        LD  u = wrap ((LD) x[a] - (LD) t[a]), v = wrap (alt - (LD) t[a]);
                        dm += u * u; om += v * v;
                    }
                    if (om < dm - 1e-3L) ++l.alt_closer;
                }
                // --- makeNear: target in the same order, and in another fixed-axis order
                for (int other = 0; other < 2; ++other)
                {
                    const OrderInfo& OT = other ? ORDERS[(oi + 1) % 6] : O;
                    E e (x, ord, E::XYZLayout);
                    E tg = other ? E (t, (Ord) OT.value) : E (t, ord, E::XYZLayout);
                    Vec3<T> txyz = other ? E (tg, ord).toXYZVector () : t; // the target's angles in e's order, by axis
                    e.makeNear (tg);
                    (other ? l.mk_other : l.mk_same)++;
                    if (e.order () != ord) R ().fail ("Euler::makeNear.keeps-order", in (O.name), hex4 (O.value), hex4 ((int) e.order ()));
                    LD ds = 0;
                    for (int c = 0; c < 3; ++c) ds += nearestDelta<T> (x[c], txyz[c]);
                    LD d = ref::maxdiff (ref::eulerRef (O, e.x, e.y, e.z), R0);
                    if (!(d <= ds))
                        R ().fail (other ? "Euler::makeNear.keeps-rotation.target-in-other-order" : "Euler::makeNear.keeps-rotation", in (O.name) + (other ? std::string (" targetOrder=") + OT.name : std::string ()),
                                   "rotation unchanged within " + ref::fmtE (ds), vf::Msg () << "(" << e.x << " " << e.y << " " << e.z << ") changes it by " << ref::fmtE (d));
                    Vec3<T> exyz = e.toXYZVector ();
                    int     nx[3];
                    O.nameAxes (nx);
                    for (int s = 0; s < 3; ++s)
                    {
                        LD cl = fabsl ((LD) e[s] - (LD) txyz[nx[s]]);
                        if (!(cl <= closeBound<T> (txyz[nx[s]])))
                            R ().fail (other ? "Euler::makeNear.within-pi-of-target.target-in-other-order" : "Euler::makeNear.within-pi-of-target", in (O.name) + (other ? std::string (" targetOrder=") + OT.name : std::string ()),
                                       "angle about axis " + std::to_string (nx[s]) + " within pi of " + ref::fmtE (txyz[nx[s]]), vf::Msg () << e[s] << " (|diff| = " << ref::fmtE (cl) << ")");
                    }
                    (void) exyz;
                }
                // --- makeNear with the target given in EVERY other order (static repeated, rotating, rotating repeated
                // included): makeNear documents that it converts a target of another order to its own order first
                // (the re-ordering constructor, judged for all 24x24 pairs in the reorder stage), so the two promises
                // are unchanged: the rotation of *this stays, every angle ends within pi of the converted target.
                // Run for the xyzRot triples whose three grid indices are multiples of 3 (all of them in the quick tier); the
                // quick tier takes the targets from {-10,-1,2,11}^3 (every other element of K2), the thorough tier all of K2^3.
                if (K1[d1[0]] % 3 == 0 && K1[d1[1]] % 3 == 0 && K1[d1[2]] % 3 == 0 && (allTargets || (d2[0] % 2 == 0 && d2[1] % 2 == 0 && d2[2] % 2 == 0)))
                    for (int ti = 0; ti < 24; ++ti)
                    {
                        const OrderInfo& OT = ORDERS[ti];
                        if (ti == oi || ti == (oi + 1) % 6) continue; // judged above
                        const std::string tc = OT.cls ();
                        E e (x, ord, E::XYZLayout);
                        E tg (t, (Ord) OT.value);
                        Vec3<T> txyz = E (tg, ord).toXYZVector ();
                        e.makeNear (tg);
                        ++l.mk_any[(OT.frameStatic () ? 0 : 2) + (OT.repeated () ? 1 : 0)];
                        if (e.order () != ord) R ().fail ("Euler::makeNear.keeps-order", in (O.name), hex4 (O.value), hex4 ((int) e.order ()));
                        LD ds = 0;
                        for (int c = 0; c < 3; ++c) ds += nearestDelta<T> (x[c], txyz[c]);
                        LD d = ref::maxdiff (ref::eulerRef (O, e.x, e.y, e.z), R0);
                        if (!(d <= ds))
                            R ().fail ("Euler::makeNear.keeps-rotation.target-in-" + tc + "-order", in (O.name) + " targetOrder=" + OT.name, "rotation unchanged within " + ref::fmtE (ds),
                                       vf::Msg () << "(" << e.x << " " << e.y << " " << e.z << ") changes it by " << ref::fmtE (d));
                        int nx[3];
                        O.nameAxes (nx);
                        for (int s = 0; s < 3; ++s)
                        {
                            LD cl = fabsl ((LD) e[s] - (LD) txyz[nx[s]]);
                            if (!(cl <= closeBound<T> (txyz[nx[s]])))
                                R ().fail ("Euler::makeNear.within-pi-of-target.target-in-" + tc + "-order", in (O.name) + " targetOrder=" + OT.name,
                                           "angle about axis " + std::to_string (nx[s]) + " within pi of " + ref::fmtE (txyz[nx[s]]), vf::Msg () << e[s] << " (|diff| = " << ref::fmtE (cl) << ")");
                        }
                    }
            }
        }
        std::lock_guard<std::mutex> g (mu);
        G.simple += l.simple; G.nearest += l.nearest; G.mk_same += l.mk_same; G.mk_other += l.mk_other; G.alt_closer += l.alt_closer; G.diff_pi_tie += l.diff_pi_tie;
        for (int c = 0; c < 4; ++c) G.mk_any[c] += l.mk_any[c];
        G.w_rot = std::max (G.w_rot, l.w_rot); G.w_close = std::max (G.w_close, l.w_close);
    });
    return ok;
}

void stage_near ()
{
    if (!R ().stage ("makeNear-family")) return;
    std::vector<int> K1, K2 = {-10, -5, -1, 0, 2, 7, 11};
    for (int k = -12; k <= 12; k += (R ().thorough () ? 1 : 3)) K1.push_back (k);
    NearTally G;
    bool      ok = near_T<float> (K1, K2, G) && near_T<double> (K1, K2, G);
    long long n  = G.simple + G.nearest + G.mk_same + G.mk_other + G.mk_any[0] + G.mk_any[1] + G.mk_any[2] + G.mk_any[3];
    R ().add ("states", G.simple);
    R ().add ("transitions", n);
    R ().add ("evaluations", n);
    R ().cls ("near.alternative-triple-strictly-closer", G.alt_closer);
    R ().cls ("near.some-difference-within-1e-5-of-odd-multiple-of-pi", G.diff_pi_tie);
    R ().cls ("near.makeNear-target-in-other-order", G.mk_other);
    R ().cls ("near.same-order.generic", G.mk_same);
    R ().cls ("near.makeNear-target-in-static-nonrepeated-order(all four others)", G.mk_any[0]);
    R ().cls ("near.makeNear-target-in-static-repeated-order", G.mk_any[1]);
    R ().cls ("near.makeNear-target-in-rotating-nonrepeated-order", G.mk_any[2]);
    R ().cls ("near.makeNear-target-in-rotating-repeated-order", G.mk_any[3]);
    R ().note_max ("worst nearestRotation rotation change / bound", G.w_rot);
    R ().note_max ("worst |angle - target| / pi after simpleXYZRotation", G.w_close);
    std::string b = "xyzRot in (k*pi/6)^3, k in [-12,12] step " + std::string (R ().thorough () ? "1" : "3") + ", x target in {-10,-5,-1,0,2,7,11}^3*pi/6, x 6 fixed-axis non-repeated orders, float and double; makeNear targets in all 24 orders for xyzRot on the step-3 grid" + std::string (R ().thorough () ? "" : " and targets in {-10,-1,2,11}^3*pi/6");
    if (ok) R ().stage_done (b); else R ().stage_partial (b);
}

} // namespace c11
