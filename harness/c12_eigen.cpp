// C12 — jacobiEigenSolver / minEigenVector / maxEigenVector on all symmetric integer lattices.
//
// Oracle: V^T V = I to 32 eps; V diag(S) V^T = A to 32 eps ||A||_F; the sorted eigenvalues equal the exact ones
// (long-double cyclic Jacobi, converged to 1e-21 ||A||) to the same bound.
// min/maxEigenVector(A, v): the header documents "eigenvector corresponding to the abs min / abs max eigenvalue".
//   v unit: | |v|^2 - 1 | <= 32 eps (a column of V);
//   residual |A v - lambda v|_inf <= 64 n eps ||A||_F with lambda the Rayleigh quotient
//     (A = V S V^T - E, |E| <= 32 eps|A|, |V^T v - e_i| <= 32 eps  =>  |A v - S_i v| <= (32 n + 32 n) eps |A|_F);
//   extremality | |lambda| - max_i|lambda_i| | <= 64 n eps ||A||_F  (|S_i - lambda_i| <= 32 eps|A|, |lambda - S_i| <= (64 + 32 n) eps|A|);
//   ties in |lambda| (e.g. +2 and -2) leave the choice free, so only |lambda| is compared.
#include "c12.hpp"

namespace c12 {
using vf::R;

template <class T, int N> struct LibTypesE;
template <class T> struct LibTypesE<T, 3> { typedef Matrix33<T> M; typedef Vec3<T> V; static const char* name () { return "Matrix33"; } };
template <class T> struct LibTypesE<T, 4> { typedef Matrix44<T> M; typedef Vec4<T> V; static const char* name () { return "Matrix44"; } };

struct EigTally
{
    long long cases = 0, transitions = 0, diagonal = 0, repeated = 0, indefinite = 0, singular = 0, abs_tie = 0, generic = 0, scaled = 0;
    double    w_orth = 0, w_recomp = 0, w_ev = 0, w_vec = 0;
    void merge (const EigTally& o)
    {
        cases += o.cases; transitions += o.transitions; diagonal += o.diagonal; repeated += o.repeated; indefinite += o.indefinite; singular += o.singular;
        abs_tie += o.abs_tie; generic += o.generic; scaled += o.scaled;
        w_orth = std::max (w_orth, o.w_orth); w_recomp = std::max (w_recomp, o.w_recomp); w_ev = std::max (w_ev, o.w_ev); w_vec = std::max (w_vec, o.w_vec);
    }
};

template <int N> struct SymMat
{
    long long   a[N * N];
    ref::Mat<N> A;
    LD          ev[N], normF, absmax, absmin;
    bool        diagonal, repeated, indefinite, singular, abs_tie;
    void        finish ()
    {
        diagonal = true;
        for (int i = 0; i < N; ++i) for (int j = 0; j < N; ++j) { A[i][j] = (LD) a[i * N + j]; if (i != j && a[i * N + j]) diagonal = false; }
        normF = ref::frob (A);
        ref::symEigen<N> (A, ev);
        absmax = 0; absmin = INFINITY;
        for (int i = 0; i < N; ++i) { absmax = std::max (absmax, fabsl (ev[i])); absmin = std::min (absmin, fabsl (ev[i])); }
        repeated = false;
        for (int i = 0; i + 1 < N; ++i) if (fabsl (ev[i] - ev[i + 1]) <= 1e-15L * std::max (normF, (LD) 1)) repeated = true;
        indefinite = ev[0] > 1e-15L && ev[N - 1] < -1e-15L;
        singular   = ref::rankExact (a, N, N) < N;
        abs_tie    = indefinite && fabsl (ev[0] + ev[N - 1]) <= 1e-15L * normF;
    }
    std::string str () const
    {
        std::string s = "[";
        for (int i = 0; i < N * N; ++i) s += (i ? " " : "") + std::to_string (a[i]);
        return s + "]";
    }
};

// kexp != 0: the same integer matrix times 2^kexp (exact); eigenvalues and |A|_F scale by the same exact factor and every
// relation of the statement is relative to |A|, so all of them must hold unchanged (sites get the suffix ".scaled-input").
// +-40 for float and +-300 for double keep entries, pairwise products and eps-level residues normal numbers.
template <class T, int N> static void checkEig (const SymMat<N>& I0, EigTally& t, int kexp = 0)
{
    typedef typename LibTypesE<T, N>::M LM;
    typedef typename LibTypesE<T, N>::V LV;
    const LD          eps = ex::eps<T> ();
    const std::string sfx = kexp ? ".scaled-input" : "";
    const std::string ty  = LibTypesE<T, N>::name ();
    struct Scaled { ref::Mat<N> A; LD ev[N], normF, absmax, absmin; bool diagonal, repeated, indefinite, singular, abs_tie; std::string s; std::string str () const { return s; } } I;
    {
        const LD sc = ldexpl (1.0L, kexp);
        for (int i = 0; i < N; ++i) { I.ev[i] = I0.ev[i] * sc; for (int j = 0; j < N; ++j) I.A[i][j] = I0.A[i][j] * sc; }
        I.normF = I0.normF * sc; I.absmax = I0.absmax * sc; I.absmin = I0.absmin * sc;
        I.diagonal = I0.diagonal; I.repeated = I0.repeated; I.indefinite = I0.indefinite; I.singular = I0.singular; I.abs_tie = I0.abs_tie;
        I.s = I0.str () + (kexp ? " * 2^" + std::to_string (kexp) : std::string ());
    }
    auto in = [&] () { return "T=" + std::string (ref::tname<T> ()) + " A=" + I.str (); };
    LM A0;
    for (int i = 0; i < N; ++i) for (int j = 0; j < N; ++j) A0[i][j] = (T) I.A[i][j];
    ++t.cases;
    if (kexp) ++t.scaled;
    if (I.diagonal) ++t.diagonal;
    if (I.repeated) ++t.repeated;
    if (I.indefinite) ++t.indefinite;
    if (I.singular) ++t.singular;
    if (I.abs_tie) ++t.abs_tie;
    if (!I.diagonal && !I.repeated) ++t.generic;

    {
        LM A = A0, V;
        LV S;
        jacobiEigenSolver (A, S, V);
        ref::Mat<N> Vl = ref::fromLib<N> (V), D;
        LD          sorted[N];
        for (int i = 0; i < N; ++i) { D[i][i] = (LD) S[i]; sorted[i] = (LD) S[i]; }
        std::sort (sorted, sorted + N, [] (LD x, LD y) { return x > y; });
        LD ov = ref::orthoErr (ref::transpose (Vl));
        LD rc = ref::maxdiff (ref::mul (ref::mul (Vl, D), ref::transpose (Vl)), I.A);
        LD de = 0;
        for (int i = 0; i < N; ++i) { LD d = fabsl (sorted[i] - I.ev[i]); de = (d == d) ? std::max (de, d) : INFINITY; }
        t.w_orth = std::max (t.w_orth, (double) (ov / eps));
        if (I.normF > 0) { t.w_recomp = std::max (t.w_recomp, (double) (rc / (eps * I.normF))); t.w_ev = std::max (t.w_ev, (double) (de / (eps * I.normF))); }
        if (!(ov <= 32 * eps)) R ().fail ("jacobiEigenSolver(" + ty + ").V-orthonormal" + sfx, in (), "|V^T V - I| <= 32 eps", ref::fmtE (ov / eps) + " eps; V=" + ref::fmtLib<N> (V));
        if (!(rc <= 32 * eps * I.normF)) R ().fail ("jacobiEigenSolver(" + ty + ").recompose" + sfx, in (), "|V diag(S) V^T - A| <= 32 eps |A|_F", ref::fmtE (rc / (eps * std::max (I.normF, (LD) 1e-300L))) + " eps|A|; S=" + fmtVec (S));
        if (!(de <= 32 * eps * I.normF)) R ().fail ("jacobiEigenSolver(" + ty + ").eigenvalues" + sfx, in (), "sorted S = exact eigenvalues within 32 eps |A|_F", fmtVec (S));
        // the explicit-tolerance overload is the same computation
        LM A2 = A0, V2;
        LV S2;
        jacobiEigenSolver (A2, S2, V2, std::numeric_limits<T>::epsilon ());
        if (!(sameVec (S, S2) && sameMat<N> (V, V2))) R ().fail ("jacobiEigenSolver(" + ty + ").default-tol-vs-explicit-eps" + sfx, in ());
        t.transitions += 4;
    }
    for (int which = 0; which < 2; ++which)
    {
        LM A = A0;
        LV v;
        if (which) maxEigenVector (A, v); else minEigenVector (A, v);
        const std::string fn = std::string (which ? "maxEigenVector(" : "minEigenVector(") + ty + ")";
        LD vl[N], n2 = 0, Av[N], lam = 0;
        for (int i = 0; i < N; ++i) { vl[i] = (LD) v[i]; n2 += vl[i] * vl[i]; }
        for (int i = 0; i < N; ++i) { Av[i] = 0; for (int j = 0; j < N; ++j) Av[i] += I.A[i][j] * vl[j]; lam += vl[i] * Av[i]; }
        lam /= n2;
        LD res = 0;
        for (int i = 0; i < N; ++i) { LD d = fabsl (Av[i] - lam * vl[i]); res = (d == d) ? std::max (res, d) : INFINITY; }
        LD want = which ? I.absmax : I.absmin;
        LD tol  = 64 * N * eps * I.normF;
        if (I.normF > 0) t.w_vec = std::max (t.w_vec, (double) (std::max (res, fabsl (fabsl (lam) - want)) / (eps * I.normF)));
        if (!(fabsl (n2 - 1) <= 32 * eps)) R ().fail (fn + ".unit" + sfx, in (), "| |v|^2 - 1 | <= 32 eps", ref::fmtE ((n2 - 1) / eps) + " eps; v=" + fmtVec (v));
        if (!(res <= tol)) R ().fail (fn + ".is-eigenvector" + sfx, in (), "|A v - lambda v| <= " + ref::fmtE (tol), ref::fmtE (res) + "; v=" + fmtVec (v));
        if (!(fabsl (fabsl (lam) - want) <= tol))
            R ().fail (fn + ".extreme-eigenvalue" + sfx, in (), std::string (which ? "|lambda| = max|lambda_i| = " : "|lambda| = min|lambda_i| = ") + ref::fmtE (want), "lambda = " + ref::fmtE (lam) + "; v=" + fmtVec (v));
        t.transitions += 3;
    }
}

template <int N> static bool sweepE (const char* stage, unsigned base, int offset, const std::string& bound, int kf = 0, int kd = 0)
{
    if (!R ().stage (stage)) return true;
    const int      nfree = N * (N + 1) / 2;
    const uint64_t count = ex::ipow (base, nfree);
    EigTally       G;
    std::mutex     mu;
    bool ok = vf::parallel_chunks (count, 1024, [&] (uint64_t lo, uint64_t hi, unsigned) {
        EigTally l;
        for (uint64_t i = lo; i < hi; ++i)
        {
            int d[nfree];
            ex::decode (i, base, nfree, d, offset);
            SymMat<N> I;
            int       k = 0;
            for (int r = 0; r < N; ++r) for (int c = r; c < N; ++c) { I.a[r * N + c] = d[k]; I.a[c * N + r] = d[k]; ++k; }
            I.finish ();
            if (kf == 0)
            {
                checkEig<float, N> (I, l);
                checkEig<double, N> (I, l);
            }
            else
                for (int sg = -1; sg <= 1; sg += 2)
                {
                    checkEig<float, N> (I, l, sg * kf);
                    checkEig<double, N> (I, l, sg * kd);
                }
        }
        std::lock_guard<std::mutex> g (mu);
        G.merge (l);
    });
    const std::string n = std::to_string (N) + "x" + std::to_string (N);
    R ().add ("states", G.cases / 2); R ().add ("evaluations", G.cases); R ().add ("transitions", G.transitions);
    if (kf)
    {
        R ().cls ("eigen" + n + ".input-scaled-by-2^+-k", G.scaled);
        R ().note_max ("worst scaled-input eigen " + n + " orthonormality (eps)", G.w_orth);
        R ().note_max ("worst scaled-input eigen " + n + " recomposition (eps |A|_F)", G.w_recomp);
        R ().note_max ("worst scaled-input eigen " + n + " eigenvalue error (eps |A|_F)", G.w_ev);
        R ().note_max ("worst scaled-input min/maxEigenVector " + n + " residual or extremality error (eps |A|_F)", G.w_vec);
        if (ok) R ().stage_done (bound); else R ().stage_partial (std::to_string (G.cases / 4) + " matrices of: " + bound);
        return ok;
    }
    R ().cls ("eigen" + n + ".already-diagonal", G.diagonal);
    R ().cls ("eigen" + n + ".repeated-eigenvalue", G.repeated);
    R ().cls ("eigen" + n + ".indefinite", G.indefinite);
    R ().cls ("eigen" + n + ".singular", G.singular);
    R ().cls ("eigen" + n + ".max-and-min-eigenvalue-of-equal-magnitude", G.abs_tie);
    R ().cls ("eigen" + n + ".non-diagonal-distinct-eigenvalues.generic", G.generic);
    R ().note_max ("worst eigen " + n + " orthonormality (eps)", G.w_orth);
    R ().note_max ("worst eigen " + n + " recomposition (eps |A|_F)", G.w_recomp);
    R ().note_max ("worst eigen " + n + " eigenvalue error (eps |A|_F)", G.w_ev);
    R ().note_max ("worst min/maxEigenVector " + n + " residual or extremality error (eps |A|_F)", G.w_vec);
    if (ok) R ().stage_done (bound); else R ().stage_partial (std::to_string (G.cases / 2) + " matrices of: " + bound);
    return ok;
}

void stage_eigen ()
{
    sweepE<3> ("eigen3x3", 5, -2, "all 15625 symmetric 3x3 matrices over L(2) x {float,double}: jacobiEigenSolver (both overloads), minEigenVector, maxEigenVector");
    sweepE<4> ("eigen4x4", 3, -1, "all 59049 symmetric 4x4 matrices over L(1) x {float,double}: jacobiEigenSolver (both overloads), minEigenVector, maxEigenVector");
    sweepE<3> ("eigen3x3-scaled", 5, -2, "all 15625 symmetric 3x3 matrices over L(2) times 2^+-40 (float) / 2^+-300 (double): jacobiEigenSolver (both overloads), minEigenVector, maxEigenVector", 40, 300);
    sweepE<4> ("eigen4x4-scaled", 3, -1, "all 59049 symmetric 4x4 matrices over L(1) times 2^+-40 (float) / 2^+-300 (double): jacobiEigenSolver (both overloads), minEigenVector, maxEigenVector", 40, 300);
}

} // namespace c12
