// C14 — ray-box and line-box intersection are geometrically exact.
// Entry points: intersects(box, ray), intersects(box, ray, ip), findEntryAndExitPoints(line, box, entry, exit).
// Oracle: the slab test from the definition, in exact arithmetic. Every parameter value is a fraction n/d with
// d > 0 and fractions are compared by cross-multiplication:
//   * lattice alphabets: N = long long (always exact);
//   * power-of-two alphabet: N = long double. There every box/origin coordinate is c*s with c a small integer
//     and s one common power of two, every direction component is 0, +-2^k or +-max, so a numerator (c1-c2)*s has
//     <= 3 significant bits, a denominator <= 53, and a cross product <= 56 < 64 bits, magnitude < 2^2100:
//     exact in x87 long double (64-bit significand, 15-bit exponent).
// Truth values must agree EXACTLY. Reported points: inside the closed box, on its surface (a coordinate equal
// to the box's min or max on that axis) unless the origin is inside (then ip == origin), and close to the exact
// point. Tolerance, fixed a priori from the implementation-independent evaluation x = fl(p + fl(fl(D/d)*e)):
// three roundings, |error| <= 4u*M with u = eps/2 and M = max(|p|, |t*e|, |x|), plus 1/2 denorm_min per rounding
// in the subnormal range:   |got - exact| <= 2*eps*M + 2*denorm_min.   (On the quick lattice every direction
// component is +-1 or +-2, so every t, product and sum is exact and the observed error is 0.)
#pragma once
#include "../engine/exact.hpp"
#include "../engine/report.hpp"
#include <ImathBox.h>
#include <ImathBoxAlgo.h>
#include <ImathLine.h>
#include <ImathVec.h>

namespace c14 {
using namespace IMATH_NAMESPACE;

// ---- failures that may occur millions of times (mutants): format only each thread's first four per site ----
struct FailTally
{
    std::map<std::string, long long> seen, pending;
    static std::mutex& mu () { static std::mutex m; return m; }
    static std::map<std::string, long long>& global () { static std::map<std::string, long long> g; return g; }
    void flush ()
    {
        std::lock_guard<std::mutex> g (mu ());
        for (auto& kv : pending) global ()[kv.first] += kv.second;
        pending.clear ();
    }
    ~FailTally () { flush (); }
};
inline FailTally& fail_tally () { thread_local FailTally t; return t; }
template <class FI, class FE, class FG> inline void fail_lazy (const std::string& site, FI in, FE want, FG got)
{
    FailTally& t = fail_tally ();
    const long long n = ++t.seen[site];
    // replay: the engine echoes every failure to stderr; format (per thread) the first 64 of the replayed site only
    if (n <= 4 || (vf::R ().replay && site == vf::R ().replay_filter_site && n <= 64)) vf::R ().fail (site, in (), want (), got ());
    else ++t.pending[site];
}
inline void flush_failures ()
{
    fail_tally ().flush ();
    std::map<std::string, long long> g;
    { std::lock_guard<std::mutex> l (FailTally::mu ()); g.swap (FailTally::global ()); }
    for (auto& kv : g) for (long long i = 0; i < kv.second; ++i) vf::R ().fail (kv.first, "", "", "");
}

// ---- the oracle ---------------------------------------------------------------------------------------------
template <class N> struct Frac { N n, d; }; // d > 0
template <class N> inline bool lt (const Frac<N>& a, const Frac<N>& b) { return a.n * b.d < b.n * a.d; }
template <class N> inline bool le (const Frac<N>& a, const Frac<N>& b) { return a.n * b.d <= b.n * a.d; }

template <class N> struct Truth
{
    bool    empty = false, inside = false, line = false, ray = false, axis_parallel = false;
    Frac<N> tin{0, 1}, tout{0, 1}; // valid when line
};

// mn,mx: box; p: origin; d: direction (not all zero)
template <class N> inline Truth<N> slab (const N* mn, const N* mx, const N* p, const N* d)
{
    Truth<N> r;
    for (int i = 0; i < 3; ++i) if (mx[i] < mn[i]) { r.empty = true; return r; } // the empty set meets nothing
    r.inside = true;
    for (int i = 0; i < 3; ++i) r.inside = r.inside && mn[i] <= p[i] && p[i] <= mx[i];
    bool have = false;
    for (int i = 0; i < 3; ++i)
    {
        if (d[i] == 0)
        {   // the line stays at p[i] on this axis for every t
            r.axis_parallel = true;
            if (p[i] < mn[i] || p[i] > mx[i]) return r;
            continue;
        }
        // { t : mn <= p + t d <= mx } = [lo, hi]
        Frac<N> lo, hi;
        if (d[i] > 0) { lo = {mn[i] - p[i], d[i]}; hi = {mx[i] - p[i], d[i]}; }
        else          { lo = {p[i] - mx[i], -d[i]}; hi = {p[i] - mn[i], -d[i]}; }
        if (!have) { r.tin = lo; r.tout = hi; have = true; }
        else { if (lt (r.tin, lo)) r.tin = lo; if (lt (hi, r.tout)) r.tout = hi; }
    }
    r.line = le (r.tin, r.tout);          // some t (any sign) is in every slab
    r.ray  = r.line && r.tout.n >= 0;     // ... and some such t is >= 0
    return r;
}

// exact point p + t*d, coordinate i, as long double (relative error <= 2^-63 of M, see header), and M
template <class N> inline long double point (const Frac<N>& t, const N* p, const N* d, int i, long double& M)
{
    long double td = ((long double) t.n * (long double) d[i]) / (long double) t.d;
    long double x  = (long double) p[i] + td;
    M = std::max (std::max (fabsl ((long double) p[i]), fabsl (td)), fabsl (x));
    return x;
}

// ---- exact numbers a*W^2 + b*W + c with W = numeric_limits<T>::max() and small integer coefficients ------------
// (stage "max-face": box faces AT +-max together with small-integer origins and directions). |b|,|c| stay far
// below W, so the lexicographic comparison of (a,b,c) is the exact comparison; products never exceed degree 2
// (checked). Conversion to T is exact for the coordinates used (pure +-W or pure small integers).
template <class T> struct Big
{
    long long a = 0, b = 0, c = 0;
    Big () {}
    Big (long long v) : c (v) {}
    Big (int v) : c (v) {}
    static Big W (long long k = 1) { Big x; x.b = k; return x; }
    friend Big operator+ (const Big& x, const Big& y) { Big r; r.a = x.a + y.a; r.b = x.b + y.b; r.c = x.c + y.c; return r; }
    friend Big operator- (const Big& x, const Big& y) { Big r; r.a = x.a - y.a; r.b = x.b - y.b; r.c = x.c - y.c; return r; }
    Big operator- () const { Big r; r.a = -a; r.b = -b; r.c = -c; return r; }
    friend Big operator* (const Big& x, const Big& y)
    {
        if (x.a * y.b || x.b * y.a || x.a * y.a) abort (); // degree > 2 never occurs on this alphabet
        Big r; r.a = x.a * y.c + x.b * y.b + x.c * y.a; r.b = x.b * y.c + x.c * y.b; r.c = x.c * y.c; return r;
    }
    static int cmp (const Big& x, const Big& y)
    {
        if (x.a != y.a) return x.a < y.a ? -1 : 1;
        if (x.b != y.b) return x.b < y.b ? -1 : 1;
        return x.c < y.c ? -1 : (x.c > y.c ? 1 : 0);
    }
    friend bool operator< (const Big& x, const Big& y) { return cmp (x, y) < 0; }
    friend bool operator> (const Big& x, const Big& y) { return cmp (x, y) > 0; }
    friend bool operator<= (const Big& x, const Big& y) { return cmp (x, y) <= 0; }
    friend bool operator>= (const Big& x, const Big& y) { return cmp (x, y) >= 0; }
    friend bool operator== (const Big& x, const Big& y) { return cmp (x, y) == 0; }
    friend bool operator!= (const Big& x, const Big& y) { return cmp (x, y) != 0; }
    explicit operator long double () const
    {
        const long double w = (long double) std::numeric_limits<T>::max ();
        return (long double) a * w * w + (long double) b * w + (long double) c; // W^2 <= 2^2048: finite in x87 long double
    }
};

// ---- per-stage options of one_case (defaults = the original behaviour) ------------------------------------------
struct CaseOpt
{
    const char* cls     = nullptr; // appended to EVERY site name of the case: confines failures to the stage's input class
    unsigned    negzero = 0;       // bit 0-2 dir.xyz, 3-5 pos.xyz, 6-8 min.xyz, 9-11 max.xyz: a zero component is passed as -0.0
    long double cscale = 1, dscale = 1; // units (powers of two) of the box/origin numbers and of the direction numbers
    int         regime = -1;       // >= 0: the stage supplies the regime (see below) instead of regime<T>()
    bool        fallback_only = false; // judge the case against the documented-fallback model only (see fallback_model)
};
// number of the oracle -> argument of the library (exact on every alphabet: <= 64 significant bits times a power of two)
template <class T, class N> inline T conv (const N& v, long double unit) { return (T) ((long double) v * unit); }

// Regime of a case on the power-of-two alphabet, a predicate on the INPUT (exact slab parameters t = D/d of the
// axes with a non-zero direction component):
//   1 = some non-zero |t| is below T's smallest normal number: t itself is not representable to relative
//       precision (underflow), the premise "distinct parameters stay distinct after rounding" of the exact
//       truth-value oracle does not hold -> outside the checked domain (counted, not judged);
//   2 = some |t| exceeds T's largest finite number, but at least one axis with a non-zero direction component has
//       both parameters representable (the situation the overflow guards are written for): judged, failures
//       get their own ".some-t-overflows" sites;
//   3 = EVERY axis with a non-zero direction component has a parameter beyond T's largest finite number (the
//       whole direction vector is, in effect, denormal relative to the distances involved): judged, failures
//       get their own ".every-t-overflows" sites;
//   0 = every parameter is 0 or a normal number.
template <class T> inline int regime (const long long*, const long long*, const long long*, const long long*) { return 0; }
template <class T> inline int regime (const long double* mn, const long double* mx, const long double* p, const long double* d)
{
    int nover = 0, naxes = 0;
    for (int i = 0; i < 3; ++i)
    {
        if (d[i] == 0) continue;
        ++naxes;
        const long double a[2] = {fabsl ((mn[i] - p[i]) / d[i]), fabsl ((mx[i] - p[i]) / d[i])}; // only compared with thresholds
        bool over = false;
        for (long double t : a)
        {
            if (t != 0 && t < (long double) std::numeric_limits<T>::min ()) return 1;
            if (t > (long double) std::numeric_limits<T>::max ()) over = true;
        }
        if (over) ++nover;
    }
    return nover == 0 ? 0 : (nover == naxes ? 3 : 2);
}

template <class T> inline int regime (const Big<T>*, const Big<T>*, const Big<T>*, const Big<T>*) { return 0; }       // stage supplies it
template <class T> inline int regime (const __int128*, const __int128*, const __int128*, const __int128*) { return 0; } // stage supplies it

// A regime-1 case (some parameter underflows) is nevertheless decidable when no underflowing parameter can take part
// in the decision, whatever it is rounded to (0, a denormal of either... the same sign, or +-min):
//   * no parameter exceeds max (regimes 2/3 are not mixed in);
//   * a direction component 0 whose origin coordinate is outside the slab decides "miss" by itself; otherwise
//   * every underflowing LOWER parameter (0 < |lo_j| < min) requires tin >= min  (then fl(lo_j) <= min*3/4 < tin), and
//     every underflowing UPPER parameter requires tout <= -min (then fl(hi_j) >= -min*3/4 > tout):
//     tin = max lo and tout = min hi are then attained by normal parameters only, strictly, with or without the
//     underflowing axis, and the entry/exit/ip points belong to those parameters.
// (On the power-of-two alphabet a parameter is c*2^k with c in {1,2,3}: below min means <= 3/4 min, and its rounded
//  value is at most that.) Such cases are judged like regime 0 under their own
// ".t-underflows-on-non-binding-axis" sites; all other regime-1 cases stay outside the checked domain.
template <class T, class N> inline bool underflow_is_harmless (const N*, const N*, const N*, const N*, const Truth<N>&) { return false; }
template <class T> inline bool underflow_is_harmless (const long double* mn, const long double* mx, const long double* p, const long double* d, const Truth<long double>& tr)
{
    const long double tmin = (long double) std::numeric_limits<T>::min (), tmax = (long double) std::numeric_limits<T>::max ();
    bool parmiss = false, lo_under = false, hi_under = false;
    for (int i = 0; i < 3; ++i)
    {
        if (d[i] == 0) { parmiss = parmiss || p[i] < mn[i] || p[i] > mx[i]; continue; }
        long double a = (mn[i] - p[i]) / d[i], b = (mx[i] - p[i]) / d[i]; // powers of two times 0..3: exact
        if (a > b) std::swap (a, b);                                       // a = lower, b = upper parameter
        if (fabsl (a) > tmax || fabsl (b) > tmax) return false;
        if (a != 0 && fabsl (a) < tmin) lo_under = true;
        if (b != 0 && fabsl (b) < tmin) hi_under = true;
    }
    if (parmiss) return true;
    const long double tin = tr.tin.n / tr.tin.d, tout = tr.tout.n / tr.tout.d; // exact (same alphabet)
    if (lo_under && !(tin >= tmin)) return false;
    if (hi_under && !(tout <= -tmin)) return false;
    return true;
}

// The remaining regime-1 cases with an exact HIT and no parameter beyond max get a one-sided check: rounding to
// nearest is monotone (x <= y => fl(x) <= fl(y)), so lo_a <= tin <= tout <= hi_b for all axes a, b survives the
// rounding of every individual parameter, whatever underflows: an exact hit must be reported as a hit (site
// "<entry point>.truth.t-underflows.exact-hit"). (An exact miss by less than the underflow threshold may
// legitimately be seen as a tie: not judged. Points are not judged either.)
template <class T, class N> inline bool all_parameters_finite (const N*, const N*, const N*, const N*) { return false; }
template <class T> inline bool all_parameters_finite (const long double* mn, const long double* mx, const long double* p, const long double* d)
{
    const long double tmax = (long double) std::numeric_limits<T>::max ();
    for (int i = 0; i < 3; ++i)
        if (d[i] != 0 && (fabsl ((mn[i] - p[i]) / d[i]) > tmax || fabsl ((mx[i] - p[i]) / d[i]) > tmax)) return false;
    return true;
}

// ---- second oracle for the overflow regimes (2, 3): the library's documented fallback design, evaluated exactly ----------
// The exact slab oracle above is the property. In the regimes where a slab quotient (face - origin)/dir exceeds the largest
// finite number TMAX the library deliberately departs from it (recorded as OPEN findings under the ".some-t-overflows" /
// ".every-t-overflows" sites, which therefore stay quiet whatever the code does there). What the library itself promises for
// those inputs (ImathBoxAlgo.h: the guards "dir > 1 || |d| <= TMAX*dir" in front of every division and their else-branches;
// known_findings.json: "treat the axis as parallel when the slab quotient would overflow; intersects() saturates t to TMAX") is:
//   findEntryAndExitPoints : an axis with a parameter beyond TMAX is handled like an axis with direction component 0: miss if
//                            the origin is outside [min,max] on that axis, otherwise no constraint from that axis; the remaining
//                            axes decide by the ordinary slab test (no remaining axis: hit);
//   intersects (both forms): the ordinary ray slab test in which every parameter t is replaced by min(t, TMAX)
//                            (hit iff the origin is inside, or no axis moves away from / stays outside its slab and
//                            max(-1, max_i sat(lo_i)) <= min(TMAX, min_i sat(hi_i))).
// This model is evaluated in exact arithmetic on the input (same number types as the slab oracle) and the library's truth
// values must equal it on every regime-2/3 case: sites "<entry point>.overflow-regime.vs-documented-fallback". It demands
// nothing beyond the library's own design, and makes a slip inside any of the (six per function) fallback branches visible.
// Checked domain: the model is also evaluated with every representable parameter replaced by its correctly rounded value
// fl(D/d); where the two evaluations differ the decision rests on a sub-ulp difference of two parameters: counted, not judged.
template <class T> inline bool tmax_frac (Frac<long double>& f) { f = {(long double) std::numeric_limits<T>::max (), 1}; return true; }
// guard alphabet (c14_guard.hpp): numerators in units U = 2^(emax+1-p), denominators in units V = 2^-p: TMAX = (2^p - 1) U = ((2^p - 1)/2^p) U/V
template <class T> inline bool tmax_frac (Frac<__int128>& f) { const int p = std::numeric_limits<T>::digits; f = {((__int128) 1 << p) - 1, (__int128) 1 << p}; return true; }
template <class T, class N> inline bool tmax_frac (Frac<N>&) { return false; }

struct FallbackModel { bool judged = false, line = false, ray = false; unsigned over = 0, outside = 0; };

template <class T, class N>
inline FallbackModel fallback_model (const N* mn, const N* mx, const N* p, const N* d, const Frac<N>& tm, long double cscale, long double dscale)
{
    FallbackModel m;
    const T TMAX = std::numeric_limits<T>::max ();
    auto beyond = [&tm] (const Frac<N>& t) { Frac<N> a = t; if (a.n < 0) a.n = -a.n; return lt (tm, a); }; // |t| > TMAX
    bool inside = true, parmiss = false, overmiss = false, away = false, have = false; // parmiss: a zero direction component decides (both models); overmiss: line model only
    Frac<N> tin{0, 1}, tout{0, 1}, rin{-1, 1}, rout = tm;          // exact evaluation
    T q_in = -std::numeric_limits<T>::infinity (), q_out = std::numeric_limits<T>::infinity (), qr_in = -1, qr_out = TMAX; // rounded parameters
    for (int i = 0; i < 3; ++i)
    {
        const bool out_i = p[i] < mn[i] || p[i] > mx[i];
        inside = inside && !out_i;
        if (d[i] == 0) { parmiss = parmiss || out_i; continue; }
        Frac<N> lo, hi;
        if (d[i] > 0) { lo = {mn[i] - p[i], d[i]}; hi = {mx[i] - p[i], d[i]}; }
        else          { lo = {p[i] - mx[i], -d[i]}; hi = {p[i] - mn[i], -d[i]}; }
        const bool blo = beyond (lo), bhi = beyond (hi);
        const T    flo = blo ? (T) 0 : conv<T> (lo.n, cscale) / conv<T> (lo.d, dscale), fhi = bhi ? (T) 0 : conv<T> (hi.n, cscale) / conv<T> (hi.d, dscale);
        // line: an axis with a parameter beyond TMAX is handled as parallel
        if (blo || bhi) { m.over |= 1u << i; if (out_i) { m.outside |= 1u << i; overmiss = true; } }
        else
        {
            if (!have) { tin = lo; tout = hi; have = true; } else { if (lt (tin, lo)) tin = lo; if (lt (hi, tout)) tout = hi; }
            if (flo > q_in) q_in = flo;
            if (fhi < q_out) q_out = fhi;
        }
        // ray: parameters saturate to TMAX
        if (hi.n < 0) away = true;
        else
        {
            const Frac<N> shi = bhi ? tm : hi;
            if (lt (shi, rout)) rout = shi;
            const T fs = bhi ? TMAX : fhi;
            if (fs < qr_out) qr_out = fs;
            if (lo.n >= 0)
            {
                const Frac<N> slo = blo ? tm : lo;
                if (lt (rin, slo)) rin = slo;
                const T gs = blo ? TMAX : flo;
                if (gs > qr_in) qr_in = gs;
            }
        }
    }
    m.line = !parmiss && !overmiss && (!have || le (tin, tout));
    m.ray  = inside || (!parmiss && !away && le (rin, rout));
    const bool line_r = !parmiss && !overmiss && q_in <= q_out, ray_r = inside || (!parmiss && !away && qr_in <= qr_out);
    m.judged = line_r == m.line && ray_r == m.ray;
    return m;
}

template <class T> inline std::string v3 (const Vec3<T>& v) { return "(" + vf::fmt (v.x) + "," + vf::fmt (v.y) + "," + vf::fmt (v.z) + ")"; }
template <class T> inline const char* tname () { return sizeof (T) == 4 ? "float" : "double"; }
template <class T> inline std::string casestr (const Box<Vec3<T>>& b, const Line3<T>& r)
{
    return std::string (tname<T> ()) + " box{min=" + v3 (b.min) + " max=" + v3 (b.max) + "} pos=" + v3 (r.pos) + " dir=" + v3 (r.dir);
}

struct Tally
{
    long long cases = 0, excluded = 0, overflow = 0, alloverflow = 0, empty = 0, flat = 0, inside = 0, hit_outside = 0, behind = 0, miss = 0, graze = 0, axis_par = 0, trans = 0, nbu = 0, uhit = 0, upts = 0, uzero = 0;
    double    worst = 0;
    long long fb_judged = 0, fb_excluded = 0, fb_blk[3][2][2] = {{{0, 0}, {0, 0}}, {{0, 0}, {0, 0}}, {{0, 0}, {0, 0}}}; // [axis][dir < 0][origin outside the slab]
    void operator+= (const Tally& o)
    {
        fb_judged += o.fb_judged; fb_excluded += o.fb_excluded;
        for (int a = 0; a < 3; ++a) for (int g = 0; g < 2; ++g) for (int k = 0; k < 2; ++k) fb_blk[a][g][k] += o.fb_blk[a][g][k];
        cases += o.cases; excluded += o.excluded; overflow += o.overflow; alloverflow += o.alloverflow; empty += o.empty; flat += o.flat; inside += o.inside; hit_outside += o.hit_outside; behind += o.behind;
        miss += o.miss; graze += o.graze; axis_par += o.axis_par; trans += o.trans; nbu += o.nbu; uhit += o.uhit; upts += o.upts; uzero += o.uzero; if (o.worst > worst) worst = o.worst;
    }
};

// check one reported point against the exact one; `which` names the site prefix
template <class T, class N>
inline void check_point (const std::string& s_box, const std::string& s_surf, const std::string& s_acc, const Vec3<T>& got, const Frac<N>& t,
                         const N* mn, const N* mx, const N* p, const N* d, const Box<Vec3<T>>& b, const Line3<T>& r, Tally& tl, bool track, const char* what,
                         long double unit = 1, long double t_abs_err = 0, long double dunit = 1)
{
    bool inbox = true, surf = false;
    for (int i = 0; i < 3; ++i)
    {
        inbox = inbox && b.min[i] <= got[i] && got[i] <= b.max[i];
        surf  = surf || got[i] == b.min[i] || got[i] == b.max[i];
    }
    if (!inbox) fail_lazy (s_box, [&] { return casestr (b, r); }, [&] { return std::string (what) + " inside the closed box"; }, [&] { return v3 (got); });
    else if (!surf) fail_lazy (s_surf, [&] { return casestr (b, r); }, [&] { return std::string (what) + " on the box surface"; }, [&] { return v3 (got); });
    double worst = 0; bool accurate = true;
    for (int i = 0; i < 3; ++i)
    {
        long double M, x = point (t, p, d, i, M);
        x *= unit; M *= unit; // (power of two: exact)
        long double tol = 2 * ex::eps<T> () * M + 2 * (long double) std::numeric_limits<T>::denorm_min ();
        tol += t_abs_err * fabsl ((long double) d[i]) * dunit; // underflow regime only (see one_case): absolute error of a subnormal parameter times the direction component
        long double err = fabsl ((long double) got[i] - x);
        if (!(err <= tol))
        {
            fail_lazy (s_acc, [&] { return casestr (b, r); },
                       [&] { return std::string (what) + " axis " + std::to_string (i) + " = " + vf::fmt (x) + " +- " + vf::fmt (tol); }, [&] { return v3 (got); });
            accurate = false;
            break;
        }
        double rel = (double) (err / (ex::eps<T> () * M + (long double) std::numeric_limits<T>::denorm_min ()));
        if (rel > worst) worst = rel;
    }
    // (worst observed ratio is recorded for the ordinary regime only: in the overflow regimes a saturated t can
    //  land inside the tolerance by coincidence of powers of two, which says nothing about accuracy)
    if (accurate && worst > tl.worst && track) tl.worst = worst;
    (void) mn; (void) mx;
}

// one (box, origin, direction) case through the three entry points
template <class T, class N> inline void one_case (const N* mn, const N* mx, const N* p, const N* d, Tally& tl, const CaseOpt& opt = CaseOpt ())
{
    const Truth<N> tr = slab<N> (mn, mx, p, d);
    int            rg = tr.empty ? 0 : (opt.regime >= 0 ? opt.regime : regime<T> (mn, mx, p, d));
    bool           nbu = false, hitonly = false;
    if (rg == 1)
    {
        if (underflow_is_harmless<T> (mn, mx, p, d, tr)) { nbu = true; rg = 0; ++tl.nbu; }
        else if (tr.line && all_parameters_finite<T> (mn, mx, p, d)) { hitonly = true; ++tl.uhit; }
        else { ++tl.excluded; return; }
    }
    if (rg == 2) ++tl.overflow;
    if (rg == 3) ++tl.alloverflow;
    // ordinary regime: one site per entry point and relation; overflow regimes: one site per entry point and regime
    // (the relation that failed is in the expected/got text)
    const std::string sfx = opt.cls ? opt.cls : (nbu ? ".t-underflows-on-non-binding-axis" : "");
    auto site = [rg, &sfx] (const char* fn, const char* rel) {
        return (rg == 3 ? std::string (fn) + ".every-t-overflows" : rg == 2 ? std::string (fn) + ".some-t-overflows" : std::string (fn) + "." + rel) + sfx;
    };
    Box<Vec3<T>> b (Vec3<T> (conv<T> (mn[0], opt.cscale), conv<T> (mn[1], opt.cscale), conv<T> (mn[2], opt.cscale)),
                    Vec3<T> (conv<T> (mx[0], opt.cscale), conv<T> (mx[1], opt.cscale), conv<T> (mx[2], opt.cscale)));
    Line3<T>     r;
    r.pos = Vec3<T> (conv<T> (p[0], opt.cscale), conv<T> (p[1], opt.cscale), conv<T> (p[2], opt.cscale));
    r.dir = Vec3<T> (conv<T> (d[0], opt.dscale), conv<T> (d[1], opt.dscale), conv<T> (d[2], opt.dscale));
    if (opt.negzero)
        for (int i = 0; i < 3; ++i)
        {   // -0.0 is the number 0: the oracle is unchanged
            if ((opt.negzero >> i & 1) && r.dir[i] == 0) r.dir[i] = -r.dir[i];
            if ((opt.negzero >> (3 + i) & 1) && r.pos[i] == 0) r.pos[i] = -r.pos[i];
            if ((opt.negzero >> (6 + i) & 1) && b.min[i] == 0) b.min[i] = -b.min[i];
            if ((opt.negzero >> (9 + i) & 1) && b.max[i] == 0) b.max[i] = -b.max[i];
        }
    // every out-parameter is pre-filled, before every call, with a value that is in NO box and equal to no coordinate
    // (quiet NaN: every comparison with it is false), so that an out-parameter the function did not write - it would
    // otherwise keep the previous query's hit point or an uninitialised value - fails "in the box" / "== origin".
    const T      SENT = std::numeric_limits<T>::quiet_NaN ();
    Vec3<T>      ip (SENT), en (SENT), exi (SENT);
    const bool g2 = intersects (b, r);
    const bool g3 = intersects (b, r, ip);
    const bool gl = findEntryAndExitPoints (r, b, en, exi);
    tl.trans += 3; ++tl.cases;
    if ((rg == 2 || rg == 3) && !tr.empty)
    {   // second oracle: the documented fallback design (see fallback_model)
        Frac<N> tm{0, 1};
        if (tmax_frac<T> (tm))
        {
            const FallbackModel fm = fallback_model<T, N> (mn, mx, p, d, tm, opt.cscale, opt.dscale);
            if (!fm.judged) ++tl.fb_excluded;
            else
            {
                ++tl.fb_judged;
                for (int i = 0; i < 3; ++i) if (fm.over >> i & 1) ++tl.fb_blk[i][d[i] < 0 ? 1 : 0][fm.outside >> i & 1];
                const std::string fsfx = std::string (".overflow-regime.vs-documented-fallback") + (opt.cls ? opt.cls : "");
                auto why = [&] (bool v) { return std::string ("truth value ") + vf::fmt (v) + " by the documented fallback (axes with a parameter beyond max: mask " + std::to_string (fm.over) + ", of which the origin is outside the slab: mask " + std::to_string (fm.outside) + ")"; };
                if (gl != fm.line) fail_lazy ("findEntryAndExitPoints" + fsfx, [&] { return casestr (b, r); }, [&] { return why (fm.line); }, [&] { return vf::fmt (gl); });
                if (g2 != fm.ray) fail_lazy ("intersects(box,ray)" + fsfx, [&] { return casestr (b, r); }, [&] { return why (fm.ray); }, [&] { return vf::fmt (g2); });
                if (g3 != fm.ray) fail_lazy ("intersects(box,ray,ip)" + fsfx, [&] { return casestr (b, r); }, [&] { return why (fm.ray); }, [&] { return vf::fmt (g3); });
            }
        }
    }
    if (opt.fallback_only) return;
    if (hitonly)
    {   // one-sided (see all_parameters_finite)
        if (tr.ray && !g2) fail_lazy ("intersects(box,ray).truth.t-underflows.exact-hit", [&] { return casestr (b, r); }, [&] { return std::string ("truth value true"); }, [&] { return vf::fmt (g2); });
        if (tr.ray && !g3) fail_lazy ("intersects(box,ray,ip).truth.t-underflows.exact-hit", [&] { return casestr (b, r); }, [&] { return std::string ("truth value true"); }, [&] { return vf::fmt (g3); });
        if (!gl) fail_lazy ("findEntryAndExitPoints.truth.t-underflows.exact-hit", [&] { return casestr (b, r); }, [&] { return std::string ("truth value true"); }, [&] { return vf::fmt (gl); });
        // Reported points in the underflow regime (exact hit, every parameter finite). The statement's "every reported point lies
        // in the box, on its surface unless the origin is inside, and on the ray to within rounding" and "ip is the ray origin if
        // that is inside" do not depend on the size of the parameters, so they are demanded here too - sites ".t-underflows":
        //   * in the closed box / on its surface: unconditionally (a reported point is a face coordinate plus clamped coordinates);
        //   * accuracy: a parameter t in the subnormal range is representable only to the ABSOLUTE error denorm_min/2 (it may
        //     round to 0), and two distinct lower (upper) parameters that round to the same number differ by at most denorm_min, so
        //     the point may legitimately belong to either. Rounding is monotone, hence the parameter the reported point belongs to
        //     is within denorm_min of the exact tin (tout); its effect on coordinate j is at most denorm_min*|dir_j|. The bound of
        //     the ordinary regime is widened by exactly that term:  |got - exact| <= 2*eps*M + 2*denorm_min + denorm_min*|dir_j|.
        //     In particular a first contact whose parameter underflows to 0 with the origin strictly outside the box must be
        //     reported within that distance of the origin's projection onto the face, not left unwritten.
        const long double TE = (long double) std::numeric_limits<T>::denorm_min ();
        ++tl.upts;
        if (tr.ray && !tr.inside && tr.tin.n > 0 && (long double) tr.tin.n / (long double) tr.tin.d * opt.cscale / opt.dscale < TE / 2) ++tl.uzero; // first-contact parameter > 0 rounds to 0
        if (g3 && tr.ray)
        {
            if (tr.inside)
            {
                if (!(ex::same (ip.x, r.pos.x) && ex::same (ip.y, r.pos.y) && ex::same (ip.z, r.pos.z)))
                    fail_lazy ("intersects(box,ray,ip).ip-is-origin-when-inside.t-underflows", [&] { return casestr (b, r); }, [&] { return "ip == origin " + v3 (r.pos); }, [&] { return v3 (ip); });
            }
            else
                check_point<T, N> ("intersects(box,ray,ip).ip-in-box.t-underflows", "intersects(box,ray,ip).ip-on-surface.t-underflows", "intersects(box,ray,ip).ip-accuracy.t-underflows",
                                   ip, tr.tin, mn, mx, p, d, b, r, tl, false, "ip", opt.cscale, TE, opt.dscale);
        }
        if (gl)
        {
            check_point<T, N> ("findEntryAndExitPoints.entry-in-box.t-underflows", "findEntryAndExitPoints.entry-on-surface.t-underflows", "findEntryAndExitPoints.entry-accuracy.t-underflows",
                               en, tr.tin, mn, mx, p, d, b, r, tl, false, "entry", opt.cscale, TE, opt.dscale);
            check_point<T, N> ("findEntryAndExitPoints.exit-in-box.t-underflows", "findEntryAndExitPoints.exit-on-surface.t-underflows", "findEntryAndExitPoints.exit-accuracy.t-underflows",
                               exi, tr.tout, mn, mx, p, d, b, r, tl, false, "exit", opt.cscale, TE, opt.dscale);
        }
        return;
    }
    if (g2 != tr.ray)
        fail_lazy (tr.empty ? "intersects(box,ray).truth.empty-box" + sfx : site ("intersects(box,ray)", "truth"), [&] { return casestr (b, r); }, [&] { return "truth value " + vf::fmt (tr.ray); }, [&] { return vf::fmt (g2); });
    if (g3 != tr.ray)
        fail_lazy (tr.empty ? "intersects(box,ray,ip).truth.empty-box" + sfx : site ("intersects(box,ray,ip)", "truth"), [&] { return casestr (b, r); }, [&] { return "truth value " + vf::fmt (tr.ray); }, [&] { return vf::fmt (g3); });
    if (gl != tr.line)
        fail_lazy (tr.empty ? "findEntryAndExitPoints.truth.empty-box" + sfx : site ("findEntryAndExitPoints", "truth"), [&] { return casestr (b, r); }, [&] { return "truth value " + vf::fmt (tr.line); }, [&] { return vf::fmt (gl); });
    if (g3 && tr.ray)
    {
        if (tr.inside)
        {
            if (!(ex::same (ip.x, r.pos.x) && ex::same (ip.y, r.pos.y) && ex::same (ip.z, r.pos.z)))
                fail_lazy (site ("intersects(box,ray,ip)", "ip-is-origin-when-inside"), [&] { return casestr (b, r); }, [&] { return "ip == origin " + v3 (r.pos); }, [&] { return v3 (ip); });
        }
        else
            check_point<T, N> (site ("intersects(box,ray,ip)", "ip-in-box"), site ("intersects(box,ray,ip)", "ip-on-surface"), site ("intersects(box,ray,ip)", "ip-accuracy"), ip, tr.tin, mn, mx, p, d, b, r, tl, rg == 0 && !nbu, "ip", opt.cscale);
    }
    if (gl && tr.line)
    {
        check_point<T, N> (site ("findEntryAndExitPoints", "entry-in-box"), site ("findEntryAndExitPoints", "entry-on-surface"), site ("findEntryAndExitPoints", "entry-accuracy"), en, tr.tin, mn, mx, p, d, b, r, tl, rg == 0 && !nbu, "entry", opt.cscale);
        check_point<T, N> (site ("findEntryAndExitPoints", "exit-in-box"), site ("findEntryAndExitPoints", "exit-on-surface"), site ("findEntryAndExitPoints", "exit-accuracy"), exi, tr.tout, mn, mx, p, d, b, r, tl, rg == 0 && !nbu, "exit", opt.cscale);
    }
    // input classes (from the oracle, i.e. predicates on the input)
    if (tr.empty) ++tl.empty;
    else
    {
        if (mn[0] == mx[0] || mn[1] == mx[1] || mn[2] == mx[2]) ++tl.flat;
        if (tr.axis_parallel) ++tl.axis_par;
        if (tr.ray) { if (tr.inside) ++tl.inside; else ++tl.hit_outside; }
        else if (tr.line) ++tl.behind;
        else ++tl.miss;
        // grazing: the line touches the box in a single point although the box has extent (edge / corner / face contact)
        if (tr.line && !lt (tr.tin, tr.tout) && !(mn[0] == mx[0] && mn[1] == mx[1] && mn[2] == mx[2])) ++tl.graze;
    }
}

template <class T> bool run_lattice (bool thorough); // c14_lat.hpp
template <class T> bool run_extreme (bool thorough); // c14_ext.hpp
template <class T> bool run_rounding (bool thorough); // c14_lat.hpp
template <class T> bool run_elongated (bool thorough); // c14_lat.hpp
template <class T> bool run_maxface (bool thorough); // c14_max.hpp
template <class T> bool run_signed (bool thorough);  // c14_max.hpp
template <class T> bool run_negzero (bool thorough); // c14_max.hpp
template <class T> bool run_guard (bool thorough);   // c14_guard.hpp
template <class T> bool run_ovf (bool thorough);     // c14_ovf.hpp

} // namespace c14
