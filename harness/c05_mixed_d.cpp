// C05 — mixed vector/matrix element types, matrix element type double (see c05_mixed.hpp)
#include "c05_mixed.hpp"
namespace c05 { template void run_mixed<double> (); }
