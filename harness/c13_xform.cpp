// C13 — transform / affineTransform, all four overloads, Box<Vec3<S>> x Matrix44<T>, S,T in {float,double}.
// The stages themselves (oracle, alphabets, error analysis) are in c13_xform.hpp, shared with c13_xform_int.cpp.
#include "c13_xform.hpp"

namespace c13 {

bool run_transforms (bool thorough)
{
    bool ok = true;
    ok &= xf::all_stages<float, float> (thorough);
    ok &= xf::all_stages<double, double> (thorough);
    ok &= xf::all_stages<float, double> (thorough);
    ok &= xf::all_stages<double, float> (thorough);
    return ok;
}

} // namespace c13
