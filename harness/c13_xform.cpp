// C13 — transform / affineTransform, all four overloads, Box<Vec3<S>> x Matrix44<T>, S,T in {float,double}.
// Oracle: exact integer / rational images of the 8 corners -> tight axis-aligned bound.
//   * integer affine matrices on lattice boxes: every product and sum is a small integer, exact in S and T,
//     so the result must EQUAL the exact bound;
//   * projective matrices (w > 0 on all corners): numerators and w are small integers (exact), the only
//     rounding is the final division x/w (correctly rounded, <= 1/2 ulp) and rounding is monotone, so
//     min/max commute with it; tolerance fixed a priori at 2 ulp of the exact bound (DESIGN.md C13).
// The out-parameter forms are called with `result` PRE-FILLED with an unrelated box (and, separately, with a
// default-constructed result): the contract is "the transformed box is returned in result".
#include "c13_common.hpp"
#include <array>

namespace c13 {
namespace {

struct IM { int a[3][3]; int t[3]; int w[4]; }; // p' = p*A + t ; w = p . w[0..2] + w[3]

template <class T> Matrix44<T> mk (const IM& m)
{
    Matrix44<T> r;
    for (int j = 0; j < 3; ++j) { for (int i = 0; i < 3; ++i) r[j][i] = (T) m.a[j][i]; r[j][3] = (T) m.w[j]; }
    for (int i = 0; i < 3; ++i) r[3][i] = (T) m.t[i];
    r[3][3] = (T) m.w[3];
    return r;
}
std::string mstr (const IM& m)
{
    std::string s = "M44[";
    for (int j = 0; j < 4; ++j)
    {
        s += j ? " | " : "";
        for (int i = 0; i < 4; ++i)
        {
            int v = i < 3 ? (j < 3 ? m.a[j][i] : m.t[i]) : m.w[j];
            s += (i ? " " : "") + std::to_string (v);
        }
    }
    return s + "]";
}
template <class S> std::string b3 (const Box<Vec3<S>>& b) { return "{min=" + vstr<Vec3<S>> (b.min) + " max=" + vstr<Vec3<S>> (b.max) + "}"; }
template <class S, class T> std::string tt () { return std::string ("Box3<") + TName<S>::n () + "> x M44<" + TName<T>::n () + ">"; }

static const int FILL[5][3][3] = {
    {{1, 1, 1}, {1, 1, 1}, {1, 1, 1}},
    {{-1, -1, -1}, {-1, -1, -1}, {-1, -1, -1}},
    {{2, 2, 2}, {2, 2, 2}, {2, 2, 2}},
    {{2, -1, 1}, {1, 2, -1}, {-1, 1, 2}},
    {{-1, 2, 2}, {2, -1, 1}, {1, 1, -1}}};
static const int TQ[3][3] = {{0, 0, 0}, {1, -2, 2}, {-2, 1, -1}};

struct LBox { int mn[3], mx[3]; };
// exact fraction with positive denominator, compared by cross-multiplication (small integers: no overflow)
struct Q
{
    long long n = 0, d = 1;
    Q () {}
    Q (long long nn, long long dd) : n (nn), d (dd) {}
    bool operator< (const Q& o) const { return n * o.d < o.n * d; }
    bool operator> (const Q& o) const { return o < *this; }
    long double ld () const { return (long double) n / (long double) d; }
    std::string str () const { return ex::Rat ((ex::i128) n, (ex::i128) d).str (); }
};
std::vector<LBox> lattice_boxes (bool nonempty, const std::vector<int>& coords)
{
    std::vector<LBox> v;
    size_t n = coords.size ();
    for (uint64_t k = 0; k < ex::ipow (n * n, 3); ++k)
    {
        LBox b; uint64_t x = k; bool ne = true;
        for (int i = 0; i < 3; ++i) { int d = (int) (x % (n * n)); x /= n * n; b.mn[i] = coords[d % n]; b.mx[i] = coords[d / n]; ne = ne && b.mn[i] <= b.mx[i]; }
        if (ne == nonempty) v.push_back (b);
    }
    return v;
}

// exact bound of the images of the 8 corners under an integer affine map
void affine_bound (const IM& m, const LBox& b, int* omn, int* omx)
{
    for (int c = 0; c < 8; ++c)
    {
        int p[3] = {(c & 1) ? b.mx[0] : b.mn[0], (c & 2) ? b.mx[1] : b.mn[1], (c & 4) ? b.mx[2] : b.mn[2]};
        for (int i = 0; i < 3; ++i)
        {
            int v = p[0] * m.a[0][i] + p[1] * m.a[1][i] + p[2] * m.a[2][i] + m.t[i];
            if (c == 0 || v < omn[i]) omn[i] = v;
            if (c == 0 || v > omx[i]) omx[i] = v;
        }
    }
}

template <class S> Box<Vec3<S>> prefill (int which)
{
    if (which == 0) return Box<Vec3<S>> (Vec3<S> (100, 100, 100), Vec3<S> (200, 200, 200));
    if (which == 1) return Box<Vec3<S>> (Vec3<S> (-300, -300, -300), Vec3<S> (-250, -250, -250));
    return Box<Vec3<S>> (); // default-constructed (how the library's own tests call it)
}
const char* prefill_name (int which) { return which == 0 ? "result pre-filled [100..200]^3" : which == 1 ? "result pre-filled [-300..-250]^3" : "result default-constructed"; }

template <class S> bool eq_int (const Box<Vec3<S>>& r, const int* mn, const int* mx)
{
    for (int i = 0; i < 3; ++i) if (r.min[i] != (S) mn[i] || r.max[i] != (S) mx[i]) return false;
    return true;
}
std::string ibox (const int* mn, const int* mx)
{
    return "{min=(" + std::to_string (mn[0]) + "," + std::to_string (mn[1]) + "," + std::to_string (mn[2]) + ") max=(" +
           std::to_string (mx[0]) + "," + std::to_string (mx[1]) + "," + std::to_string (mx[2]) + ")}";
}

// one affine (matrix, box) case through the four overloads
template <class S, class T> void affine_case (const IM& im, const Matrix44<T>& M, const LBox& lb, long long& trans)
{
    typedef Box<Vec3<S>> B;
    B   bx (Vec3<S> ((S) lb.mn[0], (S) lb.mn[1], (S) lb.mn[2]), Vec3<S> ((S) lb.mx[0], (S) lb.mx[1], (S) lb.mx[2]));
    int mn[3], mx[3];
    affine_bound (im, lb, mn, mx);
    auto in = [&] (const char* extra) { return tt<S, T> () + " box=" + b3 (bx) + " m=" + mstr (im) + (*extra ? std::string (" ") + extra : std::string ()); };
    B r1 = transform (bx, M);
    if (!eq_int (r1, mn, mx)) vf::R ().fail ("transform(box,m).affine", in (""), ibox (mn, mx), b3 (r1));
    B r3 = affineTransform (bx, M);
    if (!eq_int (r3, mn, mx)) vf::R ().fail ("affineTransform(box,m)", in (""), ibox (mn, mx), b3 (r3));
    for (int pf = 0; pf < 3; ++pf)
    {
        B r2 = prefill<S> (pf); transform (bx, M, r2);
        if (!eq_int (r2, mn, mx)) vf::R ().fail ("transform(box,m,result).affine", in (prefill_name (pf)), ibox (mn, mx), b3 (r2));
        B r4 = prefill<S> (pf); affineTransform (bx, M, r4);
        if (!eq_int (r4, mn, mx)) vf::R ().fail ("affineTransform(box,m,result)", in (prefill_name (pf)), ibox (mn, mx), b3 (r4));
    }
    // in-place use: `result` is the very object passed as `box` (both parameters are references, nothing forbids it)
    {
        B a1 = bx; transform (a1, M, a1);
        if (!eq_int (a1, mn, mx)) vf::R ().fail ("transform(box,m,result).result-aliases-box", in ("transform(b, m, b)"), ibox (mn, mx), b3 (a1));
        B a2 = bx; affineTransform (a2, M, a2);
        if (!eq_int (a2, mn, mx)) vf::R ().fail ("affineTransform(box,m,result).result-aliases-box", in ("affineTransform(b, m, b)"), ibox (mn, mx), b3 (a2));
        trans += 2;
    }
    // every lattice point of the box maps inside the returned box (integer arithmetic for the image)
    for (int x = lb.mn[0]; x <= lb.mx[0]; ++x)
        for (int y = lb.mn[1]; y <= lb.mx[1]; ++y)
            for (int z = lb.mn[2]; z <= lb.mx[2]; ++z)
            {
                int p[3] = {x, y, z}; Vec3<S> img;
                for (int i = 0; i < 3; ++i) img[i] = (S) (p[0] * im.a[0][i] + p[1] * im.a[1][i] + p[2] * im.a[2][i] + im.t[i]);
                if (!r1.intersects (img))
                    vf::R ().fail ("transform(box,m).contains-image-of-point", in ("") + " p=(" + std::to_string (x) + "," + std::to_string (y) + "," + std::to_string (z) + ")",
                                   "image " + vstr<Vec3<S>> (img) + " inside", b3 (r1));
            }
    trans += 8;
}

template <class S, class T> bool affine_stage (bool thorough)
{
    const std::vector<LBox> boxes = lattice_boxes (true, {0, 1, 2, 3});
    // matrices: 512 sparsity patterns x 5 fillings x 3 translations; thorough adds every translation of L(2)
    // (125) for the generic filling FILL[3]
    struct MI { unsigned pat, fill; int t[3]; };
    std::vector<MI> mats;
    for (auto& t : TQ) for (unsigned fill = 0; fill < 5; ++fill) for (unsigned pat = 0; pat < 512; ++pat) mats.push_back ({pat, fill, {t[0], t[1], t[2]}});
    if (thorough)
        for (int k = 0; k < 125; ++k)
        {
            int c[3]; ex::decode (k, 5, 3, c, -2);
            bool dup = false; for (auto& t : TQ) dup = dup || (t[0] == c[0] && t[1] == c[1] && t[2] == c[2]);
            if (!dup) for (unsigned pat = 0; pat < 512; ++pat) mats.push_back ({pat, 3, {c[0], c[1], c[2]}});
        }
    const uint64_t NM = mats.size ();
    std::atomic<long long> trans (0), cases (0), c_neg (0), c_sparse (0), c_full (0), c_zero (0);
    bool ok = vf::parallel_chunks (NM, 8, [&] (uint64_t lo, uint64_t hi, unsigned) {
        long long l_trans = 0, l_neg = 0, l_sparse = 0, l_full = 0, l_zero = 0;
        for (uint64_t k = lo; k < hi; ++k)
        {
            const unsigned pat = mats[k].pat, fill = mats[k].fill;
            IM im; bool neg = false; int nz = 0;
            for (int j = 0; j < 3; ++j) for (int i = 0; i < 3; ++i)
            { im.a[j][i] = ((pat >> (j * 3 + i)) & 1) ? FILL[fill][j][i] : 0; if (im.a[j][i] < 0) neg = true; if (im.a[j][i]) ++nz; }
            for (int i = 0; i < 3; ++i) { im.t[i] = mats[k].t[i]; im.w[i] = 0; }
            im.w[3] = 1;
            Matrix44<T> M = mk<T> (im);
            for (auto& lb : boxes) affine_case<S, T> (im, M, lb, l_trans);
            long long nb = (long long) boxes.size ();
            if (nz == 0) l_zero += nb; else if (nz == 9) l_full += nb; else l_sparse += nb;
            if (neg) l_neg += nb;
        }
        trans += l_trans; cases += (long long) (hi - lo) * (long long) boxes.size ();
        c_neg += l_neg; c_sparse += l_sparse; c_full += l_full; c_zero += l_zero;
    });
    if (ok && thorough)
    {   // every 3x3 block over {-1,0,1,2}, one translation, boxes with coordinates {0,2,3}
        const std::vector<LBox> b2 = lattice_boxes (true, {0, 2, 3});
        ok = vf::parallel_chunks (262144, 64, [&] (uint64_t lo, uint64_t hi, unsigned) {
            long long l_trans = 0;
            for (uint64_t k = lo; k < hi; ++k)
            {
                int d[9]; ex::decode (k, 4, 9, d, -1);
                IM im;
                for (int j = 0; j < 3; ++j) for (int i = 0; i < 3; ++i) im.a[j][i] = d[j * 3 + i];
                for (int i = 0; i < 3; ++i) { im.t[i] = TQ[1][i]; im.w[i] = 0; }
                im.w[3] = 1;
                Matrix44<T> M = mk<T> (im);
                for (auto& lb : b2) affine_case<S, T> (im, M, lb, l_trans);
            }
            trans += l_trans; cases += (long long) (hi - lo) * (long long) b2.size ();
        });
    }
    vf::R ().add ("transitions", trans.load ()); vf::R ().add ("evaluations", cases.load ()); vf::R ().add ("states", cases.load ());
    vf::R ().cls ("affine.negative-entry(a>=b branch)", c_neg); vf::R ().cls ("affine.sparse-block", c_sparse);
    vf::R ().cls ("affine.full-block", c_full); vf::R ().cls ("affine.zero-block", c_zero);
    return ok;
}

// ---- projective ---------------------------------------------------------------------------------------
static const int BLK[8][3][3] = {
    {{1, 0, 0}, {0, 1, 0}, {0, 0, 1}},  {{2, 0, 0}, {0, -1, 0}, {0, 0, 1}}, {{0, 1, 0}, {0, 0, 1}, {1, 0, 0}},
    {{2, -1, 1}, {1, 2, -1}, {-1, 1, 2}}, {{-1, 2, 2}, {2, -1, 1}, {1, 1, -1}}, {{0, 0, 0}, {0, 0, 0}, {0, 0, 0}},
    {{1, 1, 0}, {0, 0, 0}, {0, -1, 2}}, {{-2, 0, 1}, {0, 0, -1}, {0, 1, 0}}};

template <class S, class T> bool projective_stage (bool)
{
    typedef Box<Vec3<S>> B;
    const std::vector<LBox> boxes = lattice_boxes (true, {0, 1, 2, 3});
    const int W33[3] = {1, 2, 10};
    const uint64_t NM = 8ull * 3 * 64 * 3;
    std::atomic<long long> trans (0), cases (0), skipped (0), c_extend (0);
    double worst = 0; std::mutex mu;
    bool ok = vf::parallel_chunks (NM, 4, [&] (uint64_t lo, uint64_t hi, unsigned) {
        long long l_trans = 0, l_cases = 0, l_skip = 0; double l_worst = 0;
        for (uint64_t k = lo; k < hi; ++k)
        {
            int blk = (int) (k % 8), ti = (int) ((k / 8) % 3), wc = (int) ((k / 24) % 64), w3 = (int) (k / 1536);
            IM im;
            for (int j = 0; j < 3; ++j) for (int i = 0; i < 3; ++i) im.a[j][i] = BLK[blk][j][i];
            for (int i = 0; i < 3; ++i) im.t[i] = TQ[ti][i];
            int d[3]; ex::decode (wc, 4, 3, d, -1);
            im.w[0] = d[0]; im.w[1] = d[1]; im.w[2] = d[2]; im.w[3] = W33[w3];
            if (im.w[0] == 0 && im.w[1] == 0 && im.w[2] == 0 && im.w[3] == 1) continue; // affine: other stage
            Matrix44<T> M = mk<T> (im);
            for (auto& lb : boxes)
            {
                // exact rational images of the corners; the case is in the domain only if w > 0 on all of them
                Q rmn[3], rmx[3]; bool wpos = true;
                for (int c = 0; c < 8 && wpos; ++c)
                {
                    int p[3] = {(c & 1) ? lb.mx[0] : lb.mn[0], (c & 2) ? lb.mx[1] : lb.mn[1], (c & 4) ? lb.mx[2] : lb.mn[2]};
                    int w = p[0] * im.w[0] + p[1] * im.w[1] + p[2] * im.w[2] + im.w[3];
                    if (w <= 0) { wpos = false; break; }
                    for (int i = 0; i < 3; ++i)
                    {
                        Q v (p[0] * im.a[0][i] + p[1] * im.a[1][i] + p[2] * im.a[2][i] + im.t[i], w);
                        if (c == 0 || v < rmn[i]) rmn[i] = v;
                        if (c == 0 || v > rmx[i]) rmx[i] = v;
                    }
                }
                if (!wpos) { ++l_skip; continue; }
                ++l_cases;
                // oracle self-check: the image of every lattice point of the box lies in the exact bound
                for (int x = lb.mn[0]; x <= lb.mx[0]; ++x) for (int y = lb.mn[1]; y <= lb.mx[1]; ++y) for (int z = lb.mn[2]; z <= lb.mx[2]; ++z)
                {
                    int p[3] = {x, y, z}; int w = x * im.w[0] + y * im.w[1] + z * im.w[2] + im.w[3];
                    for (int i = 0; i < 3; ++i)
                    {
                        Q v (p[0] * im.a[0][i] + p[1] * im.a[1][i] + p[2] * im.a[2][i] + im.t[i], w);
                        if (w <= 0 || v < rmn[i] || v > rmx[i]) vf::R ().fail ("oracle.selfcheck.projective-hull", mstr (im), "inside", "outside");
                    }
                }
                B bx (Vec3<S> ((S) lb.mn[0], (S) lb.mn[1], (S) lb.mn[2]), Vec3<S> ((S) lb.mx[0], (S) lb.mx[1], (S) lb.mx[2]));
                auto in = [&] (const char* extra) { return tt<S, T> () + " box=" + b3 (bx) + " m=" + mstr (im) + (*extra ? std::string (" ") + extra : std::string ()); };
                auto want = [&] () { std::string s = "{min=("; for (int i = 0; i < 3; ++i) s += (i ? "," : "") + rmn[i].str (); s += ") max=(";
                                     for (int i = 0; i < 3; ++i) s += (i ? "," : "") + rmx[i].str (); return s + ")} within 2 ulp"; };
                auto close = [&] (const B& r, double& w) {
                    bool good = true;
                    for (int i = 0; i < 3; ++i)
                    {
                        long double u1 = ex::ulps<S> (r.min[i], rmn[i].ld ()), u2 = ex::ulps<S> (r.max[i], rmx[i].ld ());
                        if (!(u1 <= 2) || !(u2 <= 2)) good = false;
                        else { if ((double) u1 > w) w = (double) u1; if ((double) u2 > w) w = (double) u2; }
                    }
                    return good;
                };
                B r1 = transform (bx, M);
                if (!close (r1, l_worst)) vf::R ().fail ("transform(box,m).projective", in (""), want (), b3 (r1));
                for (int pf = 0; pf < 3; ++pf)
                {
                    const B P = prefill<S> (pf);
                    B r2 = P; transform (bx, M, r2);
                    double dummy = 0;
                    if (!close (r2, dummy))
                    {
                        // signature of the known defect: the caller's old `result` was extended instead of replaced
                        B ext = P; ext.extendBy (r1);
                        bool sig = !P.isEmpty () && same_box<Vec3<S>, Vec3<S>> (r2, ext);
                        fail_lazy (sig ? "transform(box,m,result).projective-extends-prefilled-result" : "transform(box,m,result).projective",
                                   [&] { return in (prefill_name (pf)); }, want, [&] { return b3 (r2); });
                    }
                }
                {
                    B a1 = bx; transform (a1, M, a1); // result aliases box on the projective path
                    double dummy = 0;
                    if (!close (a1, dummy)) fail_lazy ("transform(box,m,result).result-aliases-box", [&] { return in ("transform(b, m, b)"); }, want, [&] { return b3 (a1); });
                }
                l_trans += 5;
            }
        }
        trans += l_trans; cases += l_cases; skipped += l_skip;
        std::lock_guard<std::mutex> g (mu); if (l_worst > worst) worst = l_worst;
    });
    vf::R ().add ("transitions", trans.load ()); vf::R ().add ("evaluations", cases.load ()); vf::R ().add ("states", cases.load ());
    vf::R ().add ("projective_cases_outside_domain(w<=0)", skipped.load ());
    vf::R ().cls ("projective.w-positive-on-all-corners", cases.load ());
    vf::R ().note_max ("worst projective bound error (ulp)", worst);
    return ok;
}

// ---- empty -> empty, infinite -> infinite, every overload ---------------------------------------------------
template <class S, class T> bool degenerate_stage (bool)
{
    typedef Box<Vec3<S>> B;
    std::vector<B> empties; std::vector<std::string> names;
    for (auto& lb : lattice_boxes (false, {0, 1, 2, 3}))
        empties.push_back (B (Vec3<S> ((S) lb.mn[0], (S) lb.mn[1], (S) lb.mn[2]), Vec3<S> ((S) lb.mx[0], (S) lb.mx[1], (S) lb.mx[2])));
    empties.push_back (B ());
    B inf; inf.makeInfinite ();
    std::vector<IM> ms;
    for (int blk : {0, 3, 5}) for (int ti : {0, 1}) for (int wk = 0; wk < 3; ++wk)
    {
        IM im;
        for (int j = 0; j < 3; ++j) for (int i = 0; i < 3; ++i) im.a[j][i] = BLK[blk][j][i];
        for (int i = 0; i < 3; ++i) im.t[i] = TQ[ti][i];
        const int WC[3][4] = {{0, 0, 0, 1}, {0, 0, 0, 2}, {1, 0, 2, 3}};
        for (int i = 0; i < 4; ++i) im.w[i] = WC[wk][i];
        ms.push_back (im);
    }
    long long trans = 0, n_e = 0, n_i = 0;
    for (auto& im : ms)
    {
        const bool  affine = im.w[0] == 0 && im.w[1] == 0 && im.w[2] == 0 && im.w[3] == 1;
        Matrix44<T> M = mk<T> (im);
        for (size_t k = 0; k <= empties.size (); ++k)
        {
            const bool isinf = k == empties.size ();
            const B&   bx = isinf ? inf : empties[k];
            const char* cl = isinf ? "infinite-input" : "empty-input";
            auto good = [&] (const B& r) { return isinf ? r.isInfinite () : r.isEmpty (); };
            auto in = [&] (const char* extra) { return tt<S, T> () + " box=" + (isinf ? std::string ("makeInfinite()") : b3 (bx)) + " m=" + mstr (im) + (*extra ? std::string (" ") + extra : std::string ()); };
            const char* want = isinf ? "an infinite box" : "an empty box";
            B r1 = transform (bx, M);
            if (!good (r1)) vf::R ().fail (std::string ("transform(box,m).") + cl, in (""), want, b3 (r1));
            ++trans;
            if (affine) { B r3 = affineTransform (bx, M); ++trans; if (!good (r3)) vf::R ().fail (std::string ("affineTransform(box,m).") + cl, in (""), want, b3 (r3)); }
            for (int pf = 0; pf < 3; ++pf)
            {
                if (pf == 2 && !isinf) continue; // a default-constructed result is already empty: says nothing
                const B P = prefill<S> (pf);
                B r2 = P; transform (bx, M, r2); ++trans;
                if (!good (r2))
                {   // signature of the known defect: early return without touching `result`
                    bool sig = same_box<Vec3<S>, Vec3<S>> (r2, P);
                    fail_lazy (std::string ("transform(box,m,result).") + cl + (sig ? "-result-untouched" : ""), [&] { return in (prefill_name (pf)); }, [&] { return std::string (want); }, [&] { return b3 (r2); });
                }
                if (affine)
                {
                    B r4 = P; affineTransform (bx, M, r4); ++trans;
                    if (!good (r4))
                    {
                        bool sig = same_box<Vec3<S>, Vec3<S>> (r4, P);
                        vf::R ().fail (std::string ("affineTransform(box,m,result).") + cl + (sig ? "-result-untouched" : ""), in (prefill_name (pf)), want, b3 (r4));
                    }
                }
            }
            if (isinf) ++n_i; else ++n_e;
        }
    }
    vf::R ().add ("transitions", trans); vf::R ().add ("evaluations", n_e + n_i); vf::R ().add ("states", n_e + n_i);
    vf::R ().cls ("transform.empty-input", n_e); vf::R ().cls ("transform.infinite-input", n_i);
    return true;
}

template <class S, class T> bool all_stages (bool thorough)
{
    bool ok = true;
    ok &= affine_stage<S, T> (thorough);
    ok &= projective_stage<S, T> (thorough);
    ok &= degenerate_stage<S, T> (thorough);
    return ok;
}

} // namespace

bool run_transforms (bool thorough)
{
    bool ok = true;
    ok &= all_stages<float, float> (thorough);
    ok &= all_stages<double, double> (thorough);
    ok &= all_stages<float, double> (thorough);
    ok &= all_stages<double, float> (thorough);
    return ok;
}

} // namespace c13
