// C05 — explicit instantiation of the 'round' stages for double (one TU per scalar type to keep the build parallel)
#include "c05_round.hpp"
namespace c05 { template void run_rounding<double> (); }
