// C01 — float<->half conversion is exact IEEE-754 binary16, round-to-nearest-even.
// Exhaustive: all 2^16 half patterns, all 2^32 float patterns, on the real code, through the
// C functions and through the C++ constructor / cast. Oracles: engine/halfref.hpp (definition)
// and, when the CPU has F16C, the hardware converter (independent second oracle).
// Routes: imath_float_to_half / imath_half_to_float, half::half(float), half::operator=(float), half::operator float.
// Ambient state: the conversions are defined on bit patterns, so every sweep is repeated under each non-default
// rounding mode (FE_UPWARD, FE_DOWNWARD, FE_TOWARDZERO) and each MXCSR denormal mode (DAZ, FTZ, DAZ|FTZ); the correct
// answer does not depend on them (every float subnormal is below 2^-25 and becomes a signed zero anyway; every half
// subnormal is a normal float), a conversion written with float arithmetic ("multiply by a magic constant") does.
// Build variant IMATH_HALF_ENABLE_FP_EXCEPTIONS: harness/c01_fpexc.cpp (stage fpexc-build).
// Build variant IMATH_HALF_NO_LOOKUP_TABLE (the table-free half->float body): harness/c01_nolut.cpp (stage no-lookup-table-build).
#include "../engine/halfref.hpp"
#include "../engine/report.hpp"
#include <half.h>
#include <immintrin.h>
#include <cpuid.h>
#include <cfenv>
#include <vector>
#include <xmmintrin.h>

void c01_fpexc_stage (); // c01_fpexc.cpp
void c01_nolut_stage (); // c01_nolut.cpp

using namespace vf;
using IMATH_NAMESPACE::half;

__attribute__ ((target ("f16c"))) static uint16_t hw_f2h (float f)
{
    return (uint16_t) _mm_extract_epi16 (_mm_cvtps_ph (_mm_set_ss (f), _MM_FROUND_TO_NEAREST_INT | _MM_FROUND_NO_EXC), 0);
}
__attribute__ ((target ("f16c"))) static float hw_h2f (uint16_t h)
{
    return _mm_cvtss_f32 (_mm_cvtph_ps (_mm_set1_epi16 ((short) h)));
}

static bool is_nan16 (uint16_t h) { return (h & 0x7c00) == 0x7c00 && (h & 0x3ff); }
static bool is_nan32 (uint32_t u) { return (u & 0x7fffffffu) > 0x7f800000u; }

static std::string hx (uint32_t v, int w) { char b[16]; snprintf (b, sizeof b, "0x%0*x", w, v); return b; }

// non-default ambient floating-point states: rounding mode (x87 CW + MXCSR.RC via fesetround) and MXCSR.DAZ (bit 6) / FTZ (bit 15)
struct Ambient { const char* name; int round; unsigned mxcsr; bool denormal_mode; };
static const Ambient AMB[6] = {{"FE_UPWARD", FE_UPWARD, 0, false},        {"FE_DOWNWARD", FE_DOWNWARD, 0, false}, {"FE_TOWARDZERO", FE_TOWARDZERO, 0, false},
                               {"MXCSR-DAZ", FE_TONEAREST, 0x0040, true}, {"MXCSR-FTZ", FE_TONEAREST, 0x8000, true}, {"MXCSR-DAZ+FTZ", FE_TONEAREST, 0x8040, true}};
static inline void ambient_set (const Ambient& a) { fesetround (a.round); if (a.mxcsr) _mm_setcsr (_mm_getcsr () | a.mxcsr); }
static inline void ambient_reset () { _mm_setcsr (_mm_getcsr () & ~0x8040u); fesetround (FE_TONEAREST); }

// one pass of the three float->half routes over [lo,hi) under whatever ambient state is in force; only integer
// comparisons with the precomputed reference happen here (the reference model uses double arithmetic and must run
// under the default state). noinline: nothing of it may be moved across the state changes in the caller.
struct PassBad { long long n[3]; uint32_t first[3]; uint16_t got[3]; };
__attribute__ ((noinline)) static void f2h_pass (uint64_t lo, uint64_t hi, const uint16_t* ref, PassBad& b, bool with_assign)
{
    for (uint64_t i = lo; i < hi; ++i)
    {
        float    f = href::bitsf ((uint32_t) i);
        uint16_t r = ref[i - lo];
        uint16_t c = imath_float_to_half (f), cpp = half (f).bits ();
        if (c != r && !b.n[0]++) { b.first[0] = (uint32_t) i; b.got[0] = c; }
        if (cpp != r && !b.n[1]++) { b.first[1] = (uint32_t) i; b.got[1] = cpp; }
        if (with_assign)
        {
            half as; as.setBits (0x7e55); as = f;
            if (as.bits () != r && !b.n[2]++) { b.first[2] = (uint32_t) i; b.got[2] = as.bits (); }
        }
    }
}
struct H2fOut { uint32_t c, cpp; uint16_t back; };
__attribute__ ((noinline)) static void h2f_pass (H2fOut* out)
{
    for (uint32_t i = 0; i < 65536; ++i)
    {
        uint16_t h = (uint16_t) i;
        out[i].c = href::fbits (imath_half_to_float (h));
        half hh; hh.setBits (h);
        out[i].cpp  = href::fbits ((float) hh);
        out[i].back = imath_float_to_half (href::bitsf (out[i].c));
    }
}

int main (int argc, char** argv)
{
    R ().property = "C01";
    R ().parse (argc, argv);
    // CPUID.1:ECX bit 29 = F16C, bit 28 = AVX, bit 27 = OSXSAVE (clang 14 has no __builtin_cpu_supports("f16c"))
    unsigned ra = 0, rb = 0, rc = 0, rd = 0;
    const bool have_f16c = __get_cpuid (1, &ra, &rb, &rc, &rd) && ((rc >> 29) & 1) && ((rc >> 28) & 1) && ((rc >> 27) & 1);
    R ().note ("f16c_hardware_oracle", have_f16c ? "yes" : "no (CPU lacks F16C)");

    // ---- stage 0: self-check of the oracle: fast arithmetic model == search model on the
    // decision boundaries (every midpoint between adjacent finite halves and its float neighbours,
    // every half value and its float neighbours, both signs)
    if (R ().stage ("oracle-selfcheck"))
    {
        long long n = 0;
        for (uint32_t h = 0; h < 0x7c00; ++h)
        {
            long double a = href::half_mag (h), b = href::half_mag (h + 1);
            float       c[2] = {(float) a, (float) ((a + b) / 2)}; // both exact floats (<= 12 sig. bits)
            for (float x : c)
                for (int d = -2; d <= 2; ++d)
                {
                    uint32_t u = href::fbits (x) + (uint32_t) d;
                    if ((int32_t) u < 0) continue;
                    for (uint32_t sg : {0u, 0x80000000u})
                    {
                        uint16_t r1 = href::f2h_ref (u | sg), r2 = href::f2h_ref_search (u | sg);
                        ++n;
                        if (r1 != r2) R ().fail ("oracle.selfcheck", hx (u | sg, 8), hx (r2, 4), hx (r1, 4));
                    }
                }
        }
        R ().add ("oracle_selfcheck_cases", n);
        R ().stage_done ("fast model == binary-search model on all 31744 midpoints/values +-2 float ulps, both signs");
    }

    // ---- stage 1: all 2^16 half -> float
    if (R ().stage ("half-to-float-all"))
    {
        long long nan = 0, sub = 0, inf = 0, norm = 0, zero = 0, ident = 0;
        for (uint32_t i = 0; i < 65536; ++i)
        {
            uint16_t h   = (uint16_t) i;
            uint32_t ref = href::h2f_ref (h);
            uint32_t c   = href::fbits (imath_half_to_float (h));
            half     hh;
            hh.setBits (h);
            uint32_t cpp = href::fbits ((float) hh);
            if (c != ref) R ().fail ("imath_half_to_float", hx (h, 4), hx (ref, 8), hx (c, 8));
            if (cpp != ref) R ().fail ("half::operator float", hx (h, 4), hx (ref, 8), hx (cpp, 8));
            if (have_f16c)
            {
                uint32_t hw = href::fbits (hw_h2f (h));
                if (is_nan16 (h))
                {   // hardware quiets signalling NaNs: compare NaN-ness and sign only
                    if (!is_nan32 (hw) || ((hw ^ c) >> 31)) R ().fail ("imath_half_to_float.vs-hw-nan", hx (h, 4), hx (hw, 8), hx (c, 8));
                }
                else if (hw != c) R ().fail ("imath_half_to_float.vs-hw", hx (h, 4), hx (hw, 8), hx (c, 8));
            }
            uint32_t e = (h >> 10) & 31, m = h & 0x3ff;
            if (e == 31) (m ? nan : inf)++;
            else if (e == 0) (m ? sub : zero)++;
            else norm++;
            // round trip on every non-NaN pattern, C and C++ paths
            if (!is_nan16 (h))
            {
                uint16_t back  = imath_float_to_half (href::bitsf (c));
                uint16_t back2 = half (href::bitsf (cpp)).bits ();
                if (back != h) R ().fail ("roundtrip.c", hx (h, 4), hx (h, 4), hx (back, 4));
                if (back2 != h) R ().fail ("roundtrip.c++", hx (h, 4), hx (h, 4), hx (back2, 4));
                ++ident;
            }
            else
            {   // NaN payload and sign preserved by the software path both ways
                uint16_t back = imath_float_to_half (href::bitsf (c));
                if (back != h) R ().fail ("roundtrip.nan-payload", hx (h, 4), hx (h, 4), hx (back, 4));
            }
        }
        // ... and under every non-default ambient state (both directions of the round trip). The reference values are
        // computed first, under the default state.
        {
            std::vector<uint32_t> refv (65536);
            for (uint32_t i = 0; i < 65536; ++i) refv[i] = href::h2f_ref ((uint16_t) i);
            std::vector<H2fOut> out (65536);
            for (const Ambient& a : AMB)
            {
                ambient_set (a);
                h2f_pass (out.data ());
                ambient_reset ();
                for (uint32_t i = 0; i < 65536; ++i)
                {
                    uint16_t h = (uint16_t) i;
                    if (out[i].c != refv[i] || out[i].cpp != refv[i])
                        R ().fail (std::string ("imath_half_to_float.under-") + a.name, hx (h, 4), hx (refv[i], 8), hx (out[i].c != refv[i] ? out[i].c : out[i].cpp, 8));
                    if (out[i].back != h) R ().fail (std::string ("roundtrip.under-") + a.name, hx (h, 4), hx (h, 4), hx (out[i].back, 4));
                }
                R ().add ("transitions", 65536 * 3);
                R ().cls (a.denormal_mode ? "h2f.ambient-mxcsr-daz-ftz" : "h2f.non-default-ambient-rounding-mode", 65536);
            }
        }
        R ().add ("states", 65536);
        R ().add ("transitions", 65536 * 4);
        R ().add ("evaluations", 65536);
        R ().cls ("h2f.nan", nan); R ().cls ("h2f.subnormal", sub); R ().cls ("h2f.inf", inf);
        R ().cls ("h2f.normal", norm); R ().cls ("h2f.zero", zero);
        R ().add ("roundtrip_identity_patterns", ident);
        R ().sample ("half 0x0001 -> float " + hx (href::fbits (imath_half_to_float (1)), 8));
        R ().sample ("half 0xfbff -> float " + hx (href::fbits (imath_half_to_float (0xfbff)), 8));
        R ().stage_done ("all 65536 half patterns x {C function, C++ cast, round trip} x {default, 3 rounding modes, MXCSR DAZ, FTZ, DAZ+FTZ}");
    }

    // ---- stage 2: all 2^32 float -> half
    if (R ().stage ("float-to-half-all"))
    {
        std::atomic<long long> ties (0), subn (0), near_ovf (0), near_flush (0), nan_zero_top (0), nan_other (0),
            generic (0), done (0), outcomes_seen (0), modes_done (0), denorm_modes_done (0), ambient_route_sweeps (0);
        // ambient states of this tier. thorough: all six x three routes. quick (also what the clang / -O0 rebuilds of the
        // thorough tier run): the three rounding modes x {C function, constructor} and MXCSR DAZ+FTZ (both denormal modes at
        // once: each of them can only turn values into zeros, so a conversion that is sensitive to one of them is sensitive to
        // the pair) x three routes; DAZ alone and FTZ alone are swept over all 2^32 in the thorough tier and over all 2^16
        // half inputs in both.
        const bool thorough = R ().thorough ();
        std::vector<std::atomic<uint8_t>> seen (65536);
        for (auto& s : seen) s = 0;
        const uint64_t N = 1ull << 32, CH = 1ull << 20;
        bool complete = parallel_chunks (N, CH, [&] (uint64_t lo, uint64_t hi, unsigned) {
            long long l_ties = 0, l_sub = 0, l_ovf = 0, l_flush = 0, l_nz = 0, l_no = 0, l_gen = 0;
            uint16_t  prev = 0; bool have_prev = false;
            static thread_local std::vector<uint16_t> refbuf; // reference results of this chunk (computed under the default state)
            refbuf.resize (hi - lo);
            for (uint64_t i = lo; i < hi; ++i)
            {
                uint32_t u   = (uint32_t) i;
                float    f   = href::bitsf (u);
                uint16_t ref = href::f2h_ref (u);
                refbuf[i - lo] = ref;
                uint16_t c   = imath_float_to_half (f);
                uint16_t cpp = half (f).bits ();
                half     as; as.setBits (0x7e55); as = f; // the third route: half::operator=(float) has its own body
                if (c != ref) R ().fail ("imath_float_to_half", hx (u, 8), hx (ref, 4), hx (c, 4));
                if (cpp != ref) R ().fail ("half::half(float)", hx (u, 8), hx (ref, 4), hx (cpp, 4));
                if (as.bits () != ref) R ().fail ("half::operator=(float)", hx (u, 8), hx (ref, 4), hx (as.bits (), 4));
                uint32_t ab = u & 0x7fffffffu;
                if (have_f16c)
                {
                    uint16_t hw = hw_f2h (f);
                    if (ab > 0x7f800000u)
                    {
                        if (!is_nan16 (hw) || ((hw ^ c) & 0x8000)) R ().fail ("imath_float_to_half.vs-hw-nan", hx (u, 8), hx (hw, 4), hx (c, 4));
                    }
                    else if (hw != c) R ().fail ("imath_float_to_half.vs-hw", hx (u, 8), hx (hw, 4), hx (c, 4));
                }
                // monotonic over the ordered positive (and, mirrored, negative) finite floats
                if (ab <= 0x7f800000u)
                {
                    if (have_prev && (uint16_t) (c & 0x7fff) < (uint16_t) (prev & 0x7fff))
                        R ().fail ("monotonic", hx (u, 8), ">= " + hx (prev, 4), hx (c, 4));
                    prev = c; have_prev = true;
                }
                else have_prev = false;
                seen[c].store (1, std::memory_order_relaxed);
                // input classes (predicates on the input, from the definition)
                if (ab > 0x7f800000u) { if (((ab & 0x7fffff) >> 13) == 0) ++l_nz; else ++l_no; }
                else if (ab >= 0x477fe000u && ab <= 0x47800000u) ++l_ovf;           // [65504, 65536]
                else if (ab >= 0x32ffffffu && ab <= 0x33800000u) ++l_flush;         // around 2^-25 .. 2^-24
                else if (ab < 0x38800000u && ab > 0x33800000u) ++l_sub;
                else ++l_gen;
                // exact tie: the dropped bits are exactly 1000..0
                if (ab < 0x477ff000u && ab >= 0x33000000u)
                {
                    int e = (int) (ab >> 23);
                    int drop = e >= 113 ? 13 : 13 + (113 - e); // bits below the half significand
                    if (drop <= 24)
                    {
                        uint32_t m = (ab & 0x7fffff) | 0x800000;
                        if ((m & ((1u << drop) - 1)) == (1u << (drop - 1))) ++l_ties;
                    }
                }
            }
            // The conversion is defined on bit patterns: its result must not depend on the AMBIENT floating-point state.
            // Re-run the three library routes on this chunk under each non-default rounding mode and each MXCSR denormal
            // mode (set in this worker thread only, restored before the reference model is used again) and compare with
            // the reference results computed above.
            {
                static const char* RT[3] = {"imath_float_to_half", "half::half(float)", "half::operator=(float)"};
                for (const Ambient& a : AMB)
                {
                    if (!thorough && a.denormal_mode && a.mxcsr != 0x8040) continue;
                    const bool with_assign = thorough || a.denormal_mode;
                    PassBad b = {{0, 0, 0}, {0, 0, 0}, {0, 0, 0}};
                    ambient_set (a);
                    f2h_pass (lo, hi, refbuf.data (), b, with_assign);
                    ambient_reset ();
                    ambient_route_sweeps += (with_assign ? 3 : 2) * (long long) (hi - lo);
                    for (int r = 0; r < 3; ++r)
                        if (b.n[r]) R ().fail_n (std::string (RT[r]) + ".under-" + a.name, b.n[r], hx (b.first[r], 8), hx (refbuf[b.first[r] - lo], 4), hx (b.got[r], 4));
                    (a.denormal_mode ? denorm_modes_done : modes_done) += (long long) (hi - lo);
                }
            }
            ties += l_ties; subn += l_sub; near_ovf += l_ovf; near_flush += l_flush; nan_zero_top += l_nz; nan_other += l_no; generic += l_gen;
            done += (long long) (hi - lo);
        });
        long long distinct = 0;
        for (auto& s : seen) distinct += s.load ();
        R ().add ("states", done.load ());
        R ().add ("transitions", done.load () * 3);
        R ().add ("evaluations", done.load ());
        R ().cls ("f2h.exact_tie", ties); R ().cls ("f2h.subnormal_result", subn); R ().cls ("f2h.near_overflow_threshold", near_ovf);
        R ().cls ("f2h.near_flush_threshold", near_flush); R ().cls ("f2h.nan_zero_top_payload", nan_zero_top);
        R ().cls ("f2h.nan_other", nan_other); R ().cls ("f2h.generic", generic);
        R ().add ("distinct_outcomes", distinct);
        R ().add ("transitions", ambient_route_sweeps.load ());
        R ().cls ("f2h.non-default-ambient-rounding-mode", modes_done.load ());
        R ().cls ("f2h.ambient-mxcsr-daz-ftz", denorm_modes_done.load ());
        if (complete && distinct != 65536) R ().fail ("surjective", "all floats", "65536 distinct half results", std::to_string (distinct));
        R ().sample ("float 0x477fefff (65519.996) -> half " + hx (imath_float_to_half (href::bitsf (0x477fefffu)), 4));
        R ().sample ("float 0x477ff000 (65520) -> half " + hx (imath_float_to_half (href::bitsf (0x477ff000u)), 4));
        R ().sample ("float 0x33000000 (2^-25, tie to even 0) -> half " + hx (imath_float_to_half (href::bitsf (0x33000000u)), 4));
        R ().sample ("float 0x33000001 -> half " + hx (imath_float_to_half (href::bitsf (0x33000001u)), 4));
        R ().sample ("float 0x7f800001 (NaN, top payload 0) -> half " + hx (imath_float_to_half (href::bitsf (0x7f800001u)), 4));
        if (complete) R ().stage_done ("all 2^32 float patterns x {C function, C++ constructor, operator=(float)} x " + std::string (thorough ? "{default, FE_UPWARD, FE_DOWNWARD, FE_TOWARDZERO, MXCSR DAZ, FTZ, DAZ+FTZ}" : "{default, MXCSR DAZ+FTZ} and x {C function, C++ constructor} x {FE_UPWARD, FE_DOWNWARD, FE_TOWARDZERO}") + " vs definition model" + std::string (have_f16c ? " and F16C hardware" : ""));
        else R ().stage_partial (std::to_string (done.load ()) + " of 2^32 patterns");
    }

    // ---- stage 3: the IMATH_HALF_ENABLE_FP_EXCEPTIONS build of the same code (own TU)
    if (R ().stage ("fpexc-build")) c01_fpexc_stage ();
    // ---- stage 4: the IMATH_HALF_NO_LOOKUP_TABLE build (table-free half->float path; own TU)
    if (R ().stage ("no-lookup-table-build")) c01_nolut_stage ();
    return R ().finish ();
}
