// C14 float instantiation of the guard-boundary stage
#include "c14_guard.hpp"
namespace c14 { template bool run_guard<float> (bool); }
