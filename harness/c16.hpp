// C16 — shared definitions for the frustum harness (c16.cpp: Frustum members; c16_b.cpp: planes(M), FrustumTest).
//
// Frustum alphabet (DESIGN.md §1 C16): near in {1/2,1,2} x far/near in {2,8,2^10,2^20} x windows l<r, b<t over
// {-3,-1,-1/2,1/4,1,2} x {perspective, orthographic} = 5400 frusta, plus 75 further orthographic frusta with
// (near,far) in {(1,5),(2,18),(1/2,1024.5)} on the power-of-two windows.  "Dyadic" = orthographic with r-l, t-b,
// f-n all powers of two: every quantity the library computes is then exact and the oracle is an equality.
// All parameters are dyadic rationals with few bits, so sums/differences/products of parameters are exact in T.
#pragma once
#include "../engine/exact.hpp"
#include "../engine/report.hpp"
#include <ImathBox.h>
#include <ImathFrustum.h>
#include <ImathFrustumTest.h>
#include <ImathMatrix.h>
#include <ImathPlane.h>
#include <ImathSphere.h>
#include <ImathVec.h>
#include <algorithm>

namespace c16 {
using namespace IMATH_NAMESPACE;
typedef long double LD;
typedef long long   ll;

struct L3
{
    LD x, y, z;
    L3 operator+ (const L3& o) const { return {x + o.x, y + o.y, z + o.z}; }
    L3 operator- (const L3& o) const { return {x - o.x, y - o.y, z - o.z}; }
    L3 operator* (LD s) const { return {x * s, y * s, z * s}; }
    LD operator[] (int i) const { return i == 0 ? x : (i == 1 ? y : z); }
};
inline LD dot (const L3& a, const L3& b) { return a.x * b.x + a.y * b.y + a.z * b.z; }
inline L3 cross (const L3& a, const L3& b) { return {a.y * b.z - a.z * b.y, a.z * b.x - a.x * b.z, a.x * b.y - a.y * b.x}; }
inline LD len (const L3& a) { return sqrtl (dot (a, a)); }
inline LD l1 (const L3& a) { return fabsl (a.x) + fabsl (a.y) + fabsl (a.z); }
inline LD linf (const L3& a) { return std::max (fabsl (a.x), std::max (fabsl (a.y), fabsl (a.z))); }
template <class T> inline L3 toL (const Vec3<T>& a) { return {(LD) a.x, (LD) a.y, (LD) a.z}; }
template <class T> inline Vec3<T> toV (const L3& a) { return Vec3<T> ((T) a.x, (T) a.y, (T) a.z); }
inline std::string s (LD a) { char b[64]; snprintf (b, sizeof b, "%.21Lg", a); return b; }
inline std::string s (const L3& a) { return "(" + s (a.x) + "," + s (a.y) + "," + s (a.z) + ")"; }
template <class T> inline std::string s (const Vec3<T>& a) { return "(" + vf::fmt (a.x) + "," + vf::fmt (a.y) + "," + vf::fmt (a.z) + ")"; }
template <class T> inline const char* tname ();
template <> inline const char* tname<float> () { return "float"; }
template <> inline const char* tname<double> () { return "double"; }

inline bool pow2 (double v) { int e; return v > 0 && std::frexp (v, &e) == 0.5; }

struct FSpec
{
    double n, f, l, r, b, t;
    bool   ortho, dyadic;
    std::string str () const
    {
        char bf[200];
        snprintf (bf, sizeof bf, "Frustum(near=%g, far=%.17g, left=%g, right=%g, top=%g, bottom=%g, %s)", n, f, l, r, t, b, ortho ? "ortho" : "persp");
        return bf;
    }
    template <class T> Frustum<T> make () const { return Frustum<T> ((T) n, (T) f, (T) l, (T) r, (T) t, (T) b, ortho); }
};

inline std::vector<FSpec> frusta ()
{
    const double W[] = {-3, -1, -0.5, 0.25, 1, 2}, NR[] = {0.5, 1, 2}, RT[] = {2, 8, 1024, 1048576};
    const double XN[][2] = {{1, 5}, {2, 18}, {0.5, 1024.5}};
    std::vector<FSpec> o;
    for (int kind = 0; kind < 2; ++kind)
        for (double n : NR)
            for (double rt : RT)
                for (double l : W) for (double r : W) if (l < r)
                    for (double b : W) for (double t : W) if (b < t)
                    {
                        FSpec f = {n, n * rt, l, r, b, t, kind == 1, false};
                        f.dyadic = f.ortho && pow2 (r - l) && pow2 (t - b) && pow2 (f.f - f.n);
                        o.push_back (f);
                    }
    for (auto& nf : XN)
        for (double l : W) for (double r : W) if (l < r && pow2 (r - l))
            for (double b : W) for (double t : W) if (b < t && pow2 (t - b))
                o.push_back ({nf[0], nf[1], l, r, b, t, true, true});
    return o;
}

// ---- ideal geometry of a frustum in camera space (long double, from the definition) ----
struct Ideal
{
    L3 nrm[6]; LD off[6];   // outward unit normals / offsets: top, right, bottom, left, near, far
    L3 cor[8];              // a,b,c,d (near: lb, lt, rt, rb) e,f,g,h (far: lb, lt, rt, rb)
    int def[6][3];          // indices (into cor, 8 = apex/origin) of the three points the library builds plane i from (planes(p,M))
    L3 pt (int i) const { return i == 8 ? L3{0, 0, 0} : cor[i]; }
    L3 centre;              // a point well inside
};
inline Ideal ideal (const FSpec& F)
{
    Ideal I;
    LD n = F.n, f = F.f, l = F.l, r = F.r, b = F.b, t = F.t, k = F.ortho ? 1 : f / n;
    I.cor[0] = {l, b, -n}; I.cor[1] = {l, t, -n}; I.cor[2] = {r, t, -n}; I.cor[3] = {r, b, -n};
    I.cor[4] = {l * k, b * k, -f}; I.cor[5] = {l * k, t * k, -f}; I.cor[6] = {r * k, t * k, -f}; I.cor[7] = {r * k, b * k, -f};
    if (F.ortho)
    {
        I.nrm[0] = {0, 1, 0};  I.off[0] = t;  I.nrm[1] = {1, 0, 0};  I.off[1] = r;
        I.nrm[2] = {0, -1, 0}; I.off[2] = -b; I.nrm[3] = {-1, 0, 0}; I.off[3] = -l;
        const int d[6][3] = {{2, 6, 5}, {3, 7, 6}, {0, 4, 7}, {1, 5, 4}, {0, 3, 2}, {4, 5, 6}};
        memcpy (I.def, d, sizeof d);
    }
    else
    {
        I.nrm[0] = L3{0, n, t} * (1 / sqrtl (n * n + t * t));   I.nrm[1] = L3{n, 0, r} * (1 / sqrtl (n * n + r * r));
        I.nrm[2] = L3{0, -n, -b} * (1 / sqrtl (n * n + b * b)); I.nrm[3] = L3{-n, 0, -l} * (1 / sqrtl (n * n + l * l));
        I.off[0] = I.off[1] = I.off[2] = I.off[3] = 0;
        const int d[6][3] = {{8, 2, 1}, {8, 3, 2}, {8, 0, 3}, {8, 1, 0}, {0, 3, 2}, {4, 5, 6}};
        memcpy (I.def, d, sizeof d);
    }
    I.nrm[4] = {0, 0, 1};  I.off[4] = -n;
    I.nrm[5] = {0, 0, -1}; I.off[5] = f;
    LD m = (n + f) / 2, km = F.ortho ? 1 : m / n;
    I.centre = {(l + r) / 2 * km, (b + t) / 2 * km, -m};
    return I;
}

// camera-space point grid straddling all six planes: 7 depths x 7 x 7 lateral positions (on-plane ones included)
inline std::vector<L3> grid (const FSpec& F)
{
    std::vector<L3> o;
    LD ez = F.f - F.n, ex_ = F.r - F.l, ey = F.t - F.b;
    LD zs[7] = {-F.n + ez / 4, -F.n, -F.n - ez / 4, -(F.n + F.f) / 2, -F.f + ez / 4, -F.f, -F.f - ez / 4};
    for (LD z : zs)
    {
        LD k = F.ortho ? 1 : (z == 0 ? 1 : fabsl (z) / F.n);
        LD xs[7] = {F.l - ex_ / 4, F.l, F.l + ex_ / 4, (F.l + F.r) / 2, F.r - ex_ / 4, F.r, F.r + ex_ / 4};
        LD ys[7] = {F.b - ey / 4, F.b, F.b + ey / 4, (F.b + F.t) / 2, F.t - ey / 4, F.t, F.t + ey / 4};
        for (LD x : xs) for (LD y : ys) o.push_back ({x * k, y * k, z});
    }
    return o;
}

void run_core ();
void run_frustumtest ();
void run_cameras2 ();  // c16_c.cpp
void run_history ();   // c16_d.cpp
} // namespace c16
