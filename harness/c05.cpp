// C05 — products, transposes, minors, determinants equal their algebraic definitions.
// Driver: the stages live in c05_exact.hpp / c05_det.hpp / c05_round.hpp (templates on the scalar
// type), instantiated for float and double in c05_*_f.cpp / c05_*_d.cpp.  Oracles: c05.hpp.
#include "c05.hpp"

namespace c05 {
extern template void run_exact<float> ();
extern template void run_exact<double> ();
extern template void run_det<float> ();
extern template void run_det<double> ();
extern template void run_rounding<float> ();
extern template void run_rounding<double> ();
extern template void run_mixed<float> ();
extern template void run_mixed<double> ();
} // namespace c05

void c05_alias_stage ();
void c05_dirty_stage (); // c05_dirty.cpp

int main (int argc, char** argv)
{
    vf::R ().property = "C05";
    vf::R ().parse (argc, argv);
    vf::R ().assume ("long double has a 64-bit significand (x86-64): every product of two operands of the exact stages is exact in it");
    vf::R ().assume ("harness and library built without FMA contraction (g++ -O2, no -mfma/-ffast-math), as the repository's default build");
    c05::run_exact<float> ();
    c05::run_exact<double> ();
    c05::run_det<float> ();
    c05::run_det<double> ();
    c05::run_rounding<float> ();
    c05::run_rounding<double> ();
    c05_alias_stage ();
    c05_dirty_stage ();
    c05::run_mixed<float> ();
    c05::run_mixed<double> ();
    c05::run_intvec ();
    vf::R ().sample ("Vec3<int> (1,1,0) * Matrix44<float> with entries 13/2, -41/2 ...: every sum that is an integer must come out as that integer");
    vf::R ().sample ("Vec3<int64_t> entries 2^30+160-p: dot = exact 128-bit sum (products above 2^53)");
    vf::R ().sample ("Matrix44f: (2 E_00) * (-59 E_00) = -118 E_00 exactly");
    vf::R ().sample ("Vec3f (1,-2,2) * M44 with last column (1,0,-1,2): w = 1, result = exact numerators");
    vf::R ().sample ("det of 0/1 matrix [1,1,0,1; 1,0,1,1; 0,1,1,1; 1,1,1,0] = -3 exactly");
    return vf::R ().finish ();
}
