// C11 — shared declarations of the Euler-angle harness (see c11.cpp for the overview).
#pragma once
#include "c11_ref.hpp"
#include <ImathEuler.h>
#include <ImathMatrixAlgo.h>
#include <ImathQuat.h>

namespace c11 {

using namespace IMATH_NAMESPACE;
using ref::LD;
using ref::M3;
using ref::OrderInfo;

// numeric values come from the real header; the spelling is kept for the static-order reference
#define C11_O(n) {(int) Eulerf::n, #n}
static const OrderInfo ORDERS[24] = {
    C11_O (XYZ),  C11_O (XZY),  C11_O (YZX),  C11_O (YXZ),  C11_O (ZXY),  C11_O (ZYX),
    C11_O (XZX),  C11_O (XYX),  C11_O (YXY),  C11_O (YZY),  C11_O (ZYZ),  C11_O (ZXZ),
    C11_O (XYZr), C11_O (XZYr), C11_O (YZXr), C11_O (YXZr), C11_O (ZXYr), C11_O (ZYXr),
    C11_O (XZXr), C11_O (XYXr), C11_O (YXYr), C11_O (YZYr), C11_O (ZYZr), C11_O (ZXZr)};
#undef C11_O

// k*pi/6 rounded once to T (the reference always starts from this T value)
template <class T> inline T gridAngle (int k) { return (T) ((LD) k * ref::PI_LD / 6); }

inline std::string hex4 (int v) { char b[16]; snprintf (b, sizeof b, "0x%04x", v); return b; }

template <class T> inline std::string caseStr (const OrderInfo& O, T a0, T a1, T a2)
{
    return vf::Msg () << "T=" << ref::tname<T> () << " order=" << O.name << "(" << hex4 (O.value) << ") angles=(" << a0 << " " << a1
                      << " " << a2 << ")";
}

// XYZ-layout reference for a static non-repeated order: the angle about axis a is v[a]
inline M3 xyzLayoutRef (const OrderInfo& O, LD vx, LD vy, LD vz)
{
    int ax[3];
    O.nameAxes (ax);
    LD v[3] = {vx, vy, vz};
    return ref::compose (ax[0], ax[1], ax[2], v[ax[0]], v[ax[1]], v[ax[2]]);
}

void stage_orders ();          // c11_misc.cpp
void stage_reorder ();         // c11_misc.cpp
void stage_extract2d ();       // c11_misc.cpp
void stage_angleMod ();        // c11_near.cpp
void stage_near ();            // c11_near.cpp
void stage_cases_float ();     // c11_cases.cpp
void stage_cases_double ();    // c11_cases.cpp

} // namespace c11
