// C01 — third build variant of half.h: IMATH_HALF_NO_LOOKUP_TABLE (half.h: "an implementation can eliminate the
// exported symbol [the table] by defining the IMATH_HALF_NO_LOOKUP_TABLE preprocessor symbol"; the same table-free
// "shift and re-bias, renormalise the subnormals" body of imath_half_to_float is what a build configured without
// IMATH_HALF_USE_LOOKUP_TABLE and every C translation unit on such a build compile). The default build (c01.cpp) reads
// the 65536-entry table and never executes this body, so a defect in it is invisible there.
//
// Oracle (a priori, from the property statement): "converting ANY of the 65,536 half bit patterns to float yields
// exactly the value that pattern denotes as IEEE-754 binary16 (signed zeros, subnormals, infinities, NaN-ness with sign
// and payload)". The statement is about bit patterns -> values, it quantifies neither over build options nor over the
// thread's floating-point environment: the result must be engine/halfref.hpp's h2f_ref(h) bit for bit through
// imath_half_to_float and through half::operator float, under the default state and under every non-default rounding
// direction (FE_UPWARD, FE_DOWNWARD, FE_TOWARDZERO) and MXCSR denormal mode (DAZ, FTZ, DAZ+FTZ). (Every half value is a
// NORMAL float or zero, so neither a rounding direction nor a denormal mode has anything to act on in a correct
// conversion; a renormalisation written with float arithmetic - "x - 2^-14", "x * 2^112" - does depend on them: e.g.
// x - x is -0 under FE_DOWNWARD.) "Hence half->float->half is the identity on every non-NaN pattern, through the C
// functions and through the C++ constructor and cast alike" gives the round-trip sites; NaNs keep sign and payload on
// the software paths.
//
// The float->half direction does not depend on the macro, but the variant's half(float) / operator=(float) are separate
// instantiations in this TU: the boundary subset c01_boundary.hpp (every rounding boundary +-2 ulps, every exponent x
// boundary significands, every literal threshold +-3) is run through the three routes under the seven ambient states
// against f2h_ref.
//
// Own translation unit, own inline-namespace name (same ODR/COMDAT precaution as c01_fpexc.cpp: half::operator float is
// an inline function with external linkage; two TUs compiling it with different bodies of the static inline
// imath_half_to_float would otherwise be folded into one by the linker).
#include <ImathConfig.h>
#undef IMATH_INTERNAL_NAMESPACE
#define IMATH_INTERNAL_NAMESPACE Imath_verif_c01_nolut
#define IMATH_HALF_NO_LOOKUP_TABLE
#include <half.h>

#include "../engine/halfref.hpp"
#include "../engine/report.hpp"
#include "c01_boundary.hpp"
#include <cfenv>
#include <vector>
#include <xmmintrin.h>

#ifndef IMATH_HALF_NO_LOOKUP_TABLE
#    error "variant macro lost"
#endif
#if defined(__F16C__)
#    error "this TU must exercise the software path (compile without -mf16c)"
#endif

using namespace vf;
typedef Imath_verif_c01_nolut::half nhalf;

static std::string hx (uint32_t v, int w) { char b[16]; snprintf (b, sizeof b, "0x%0*x", w, v); return b; }
static bool is_nan16 (uint16_t h) { return (h & 0x7c00) == 0x7c00 && (h & 0x3ff); }

// ambient states (index 0 = default)
struct Ambient { const char* name; int round; unsigned mxcsr; bool denormal_mode; };
static const Ambient AMB[7] = {{nullptr, FE_TONEAREST, 0, false},
                               {"FE_UPWARD", FE_UPWARD, 0, false},        {"FE_DOWNWARD", FE_DOWNWARD, 0, false}, {"FE_TOWARDZERO", FE_TOWARDZERO, 0, false},
                               {"MXCSR-DAZ", FE_TONEAREST, 0x0040, true}, {"MXCSR-FTZ", FE_TONEAREST, 0x8000, true}, {"MXCSR-DAZ+FTZ", FE_TONEAREST, 0x8040, true}};
static inline void ambient_set (const Ambient& a) { fesetround (a.round); if (a.mxcsr) _mm_setcsr (_mm_getcsr () | a.mxcsr); }
static inline void ambient_reset () { _mm_setcsr (_mm_getcsr () & ~0x8040u); fesetround (FE_TONEAREST); }
static std::string site (const char* base, const Ambient& a)
{
    std::string s = std::string (base) + ".no-lookup-table-build";
    if (a.name) s += std::string (".under-") + a.name;
    return s;
}

// The library calls live in noinline functions that read their input through a volatile pointer and only store integer
// bit patterns: nothing of them can be evaluated at compile time (under the compiler's default-environment assumption)
// or moved across the state changes in the caller; the comparison with the reference (computed under the default
// state) happens after ambient_reset().
struct H2fOut { uint32_t c, cpp; uint16_t back_c, back_cpp; };
__attribute__ ((noinline)) static void h2f_pass (const volatile uint16_t* in, H2fOut* out)
{
    for (uint32_t i = 0; i < 65536; ++i)
    {
        uint16_t h = in[i];
        out[i].c   = href::fbits (imath_half_to_float (h));
        nhalf hh; hh.setBits (h);
        out[i].cpp = href::fbits ((float) hh);
        out[i].back_c   = imath_float_to_half (href::bitsf (out[i].c));
        out[i].back_cpp = nhalf (href::bitsf (out[i].cpp)).bits ();
    }
}
struct F2hOut { uint16_t c, ctor, assign; };
__attribute__ ((noinline)) static void f2h_pass (const volatile uint32_t* in, size_t n, F2hOut* out)
{
    for (size_t i = 0; i < n; ++i)
    {
        float f = href::bitsf (in[i]);
        out[i].c    = imath_float_to_half (f);
        out[i].ctor = nhalf (f).bits ();
        nhalf as; as.setBits (0x7e55); as = f;
        out[i].assign = as.bits ();
    }
}

void c01_nolut_stage ()
{
    // ---- half -> float, all 2^16, seven ambient states
    std::vector<uint16_t> hin (65536);
    std::vector<uint32_t> href_v (65536);
    long long nan = 0, sub = 0, inf = 0, norm = 0, zero = 0;
    for (uint32_t i = 0; i < 65536; ++i)
    {
        hin[i] = (uint16_t) i;
        href_v[i] = href::h2f_ref ((uint16_t) i);
        uint32_t e = (i >> 10) & 31, m = i & 0x3ff;
        if (e == 31) (m ? nan : inf)++;
        else if (e == 0) (m ? sub : zero)++;
        else norm++;
    }
    std::vector<H2fOut> hout (65536);
    long long transitions = 0, amb_round = 0, amb_mxcsr = 0;
    for (const Ambient& a : AMB)
    {
        ambient_set (a);
        h2f_pass (hin.data (), hout.data ());
        ambient_reset ();
        for (uint32_t i = 0; i < 65536; ++i)
        {
            const uint16_t h = (uint16_t) i;
            if (hout[i].c != href_v[i]) R ().fail (site ("imath_half_to_float", a), hx (h, 4), hx (href_v[i], 8), hx (hout[i].c, 8));
            if (hout[i].cpp != href_v[i]) R ().fail (site ("half::operator float", a), hx (h, 4), hx (href_v[i], 8), hx (hout[i].cpp, 8));
            // round trip: identity on every non-NaN pattern (C and C++), NaN sign+payload preserved on the software path (C)
            if (hout[i].back_c != h) R ().fail (site (is_nan16 (h) ? "roundtrip.nan-payload" : "roundtrip.c", a), hx (h, 4), hx (h, 4), hx (hout[i].back_c, 4));
            if (hout[i].back_cpp != h) R ().fail (site (is_nan16 (h) ? "roundtrip.nan-payload.c++" : "roundtrip.c++", a), hx (h, 4), hx (h, 4), hx (hout[i].back_cpp, 4));
        }
        transitions += 65536 * 4;
        if (a.name) (a.denormal_mode ? amb_mxcsr : amb_round) += 65536;
    }
    // ---- float -> half, boundary subset, three routes, seven ambient states
    const std::vector<uint32_t> fin = c01b::boundary_floats ();
    std::vector<uint16_t>       fref (fin.size ());
    for (size_t i = 0; i < fin.size (); ++i) fref[i] = href::f2h_ref (fin[i]);
    std::vector<F2hOut> fout (fin.size ());
    for (const Ambient& a : AMB)
    {
        ambient_set (a);
        f2h_pass (fin.data (), fin.size (), fout.data ());
        ambient_reset ();
        for (size_t i = 0; i < fin.size (); ++i)
        {
            if (fout[i].c != fref[i]) R ().fail (site ("imath_float_to_half", a), hx (fin[i], 8), hx (fref[i], 4), hx (fout[i].c, 4));
            if (fout[i].ctor != fref[i]) R ().fail (site ("half::half(float)", a), hx (fin[i], 8), hx (fref[i], 4), hx (fout[i].ctor, 4));
            if (fout[i].assign != fref[i]) R ().fail (site ("half::operator=(float)", a), hx (fin[i], 8), hx (fref[i], 4), hx (fout[i].assign, 4));
        }
        transitions += (long long) fin.size () * 3;
        if (a.name) (a.denormal_mode ? amb_mxcsr : amb_round) += (long long) fin.size ();
    }
    R ().add ("states", 65536 + (long long) fin.size ());
    R ().add ("evaluations", (65536 + (long long) fin.size ()) * 7);
    R ().add ("transitions", transitions);
    R ().cls ("nolut.h2f.subnormal(renormalisation-branch)", sub);
    R ().cls ("nolut.h2f.zero(exponent-0-significand-0)", zero);
    R ().cls ("nolut.h2f.inf", inf);
    R ().cls ("nolut.h2f.nan", nan);
    R ().cls ("nolut.h2f.normal.generic", norm);
    R ().cls ("nolut.non-default-ambient-rounding-mode", amb_round);
    R ().cls ("nolut.ambient-mxcsr-daz-ftz", amb_mxcsr);
    R ().cls ("nolut.f2h.boundary-subset", (long long) fin.size ());
    {
        volatile uint16_t z = 0, one = 1;
        fesetround (FE_DOWNWARD);
        uint32_t a = href::fbits (imath_half_to_float (z)), b = href::fbits (imath_half_to_float (one));
        fesetround (FE_TONEAREST);
        R ().sample ("no-lookup-table build, FE_DOWNWARD: half 0x0000 -> float " + hx (a, 8) + ", half 0x0001 -> float " + hx (b, 8));
    }
    R ().stage_done ("compiled with IMATH_HALF_NO_LOOKUP_TABLE (table-free shift/renormalise path): all 65536 half patterns x {C function, C++ cast, round trip C, round trip C++} and " +
                     std::to_string (fin.size ()) + " boundary float patterns x {C function, C++ constructor, operator=(float)}, each x {default, FE_UPWARD, FE_DOWNWARD, FE_TOWARDZERO, MXCSR DAZ, FTZ, DAZ+FTZ} vs definition model");
}
