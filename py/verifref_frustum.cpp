// Reference functions for the scalar Frustum / FrustumTest / Rand32 / Rand48 bindings, written against ImathFrustum.h,
// ImathFrustumTest.h, ImathRandom.h.
#include "verifref_common.hpp"
using namespace vr;

template <class T> static void frustum_refs (const char* cls, const char* testcls)
{
    typedef Frustum<T> F;
    typedef Vec3<T> V;
    Reg D (cls);
    D ("__init__", +[] (const F& f) { return F (f); });
    D ("__init__", +[] () { return F (); });
    D ("__init__", +[] (T n, T f, T l, T r, T t, T b, bool o) { return F (n, f, l, r, t, b, o); });
    D ("__init__", +[] (T n, T f, T fovx, T fovy, T aspect) { return F (n, f, fovx, fovy, aspect); });
    D ("__copy__", +[] (const F& f) { return F (f); });
    D ("__deepcopy__", +[] (const F& f, bp::dict&) { return F (f); });
    D ("__eq__", +[] (F& a, const F& b) { return a == b; });
    D ("__ne__", +[] (F& a, const F& b) { return a != b; });
    D ("set", +[] (F& s, T n, T f, T l, T r, T t, T b, bool o) { s.set (n, f, l, r, t, b, o); });
    D ("set", +[] (F& s, T n, T f, T fovx, T fovy, T aspect) { s.set (n, f, fovx, fovy, aspect); });
    D ("modifyNearAndFar", +[] (F& f, T n, T fa) { f.modifyNearAndFar (n, fa); });
    D ("setOrthographic", +[] (F& f, bool o) { f.setOrthographic (o); });
    D ("nearPlane", +[] (F& f) { return f.nearPlane (); });
    D ("farPlane", +[] (F& f) { return f.farPlane (); });
    D ("near", +[] (F& f) { return f.nearPlane (); });
    D ("far", +[] (F& f) { return f.farPlane (); });
    D ("left", +[] (F& f) { return f.left (); });
    D ("right", +[] (F& f) { return f.right (); });
    D ("top", +[] (F& f) { return f.top (); });
    D ("bottom", +[] (F& f) { return f.bottom (); });
    D ("orthographic", +[] (F& f) { return f.orthographic (); });
    // documented: a sequence of 6 planes (top, right, bottom, left, near, far), optionally transformed by M
    D ("planes", +[] (F& f) { Plane3<T> p[6]; f.planes (p); return bp::make_tuple (p[0], p[1], p[2], p[3], p[4], p[5]); });
    D ("planes", +[] (F& f, const Matrix44<T>& m) { Plane3<T> p[6]; f.planes (p, m); return bp::make_tuple (p[0], p[1], p[2], p[3], p[4], p[5]); });
    D ("fovx", +[] (F& f) { return f.fovx (); });
    D ("fovy", +[] (F& f) { return f.fovy (); });
    D ("aspect", +[] (F& f) { return f.aspect (); });
    D ("projectionMatrix", +[] (F& f) { return f.projectionMatrix (); });
    D ("window", +[] (F& f, T l, T r, T b, T t) { return f.window (l, r, b, t); });
    D ("projectScreenToRay", +[] (F& f, const Vec2<T>& p) { return f.projectScreenToRay (p); });
    D ("projectScreenToRay", +[] (F& f, const bp::tuple& p) { return f.projectScreenToRay (from_seq<Vec2<T>> (p)); });
    D ("projectPointToScreen", +[] (F& f, const V& p) { return f.projectPointToScreen (p); });
    D ("projectPointToScreen", +[] (F& f, const bp::tuple& p) { return f.projectPointToScreen (from_seq<V> (p)); });
    D ("projectPointToScreen", +[] (F& f, const bp::object& p) { return f.projectPointToScreen (vec_arg<V> (p)); });
    D ("ZToDepth", +[] (F& f, long z, long zmin, long zmax) { return f.ZToDepth (z, zmin, zmax); });
    D ("normalizedZToDepth", +[] (F& f, T z) { return f.normalizedZToDepth (z); });
    D ("DepthToZ", +[] (F& f, T depth, long zmin, long zmax) { return f.DepthToZ (depth, zmin, zmax); });
    D ("worldRadius", +[] (F& f, const V& p, T r) { return f.worldRadius (p, r); });
    D ("worldRadius", +[] (F& f, const bp::tuple& p, T r) { return f.worldRadius (from_seq<V> (p), r); });
    D ("screenRadius", +[] (F& f, const V& p, T r) { return f.screenRadius (p, r); });
    D ("screenRadius", +[] (F& f, const bp::tuple& p, T r) { return f.screenRadius (from_seq<V> (p), r); });

    typedef FrustumTest<T> FT;
    Reg E (testcls);
    E ("__init__", +[] (const F& f, const Matrix44<T>& m) { return FT (f, m); });
    E ("__copy__", +[] (const FT& t) { return FT (t); });
    E ("__deepcopy__", +[] (const FT& t, bp::dict&) { return FT (t); });
    E ("isVisible", +[] (FT& t, const V& p) { return t.isVisible (p); });
    E ("isVisible", +[] (FT& t, const Box<V>& b) { return t.isVisible (b); });
    E ("completelyContains", +[] (FT& t, const Box<V>& b) { return t.completelyContains (b); });
}

template <class R, class F> static void rand_refs (const char* cls)
{
    Reg D (cls);
    D ("__init__", +[] () { return R (); });
    D ("__init__", +[] (unsigned long seed) { return R (seed); });
    D ("__init__", +[] (R r) { return R (r); });
    D ("__copy__", +[] (const R& r) { return R (r); });
    D ("__deepcopy__", +[] (const R& r, bp::dict&) { return R (r); });
    D ("init", +[] (R& r, unsigned long seed) { r.init (seed); });
    D ("nexti", +[] (R& r) { return r.nexti (); });
    D ("nextf", +[] (R& r) { return r.nextf (); });
    D ("nextf", +[] (R& r, F lo, F hi) { return r.nextf (lo, hi); });
    D ("nextb", +[] (R& r) { return r.nextb (); });
    D ("nextGauss", +[] (R& r) { return gaussRand (r); });
    // the vector argument only selects dimension and number type
    D ("nextGaussSphere", +[] (R& r, const Vec3<float>&) { return gaussSphereRand<Vec3<float>, R> (r); });
    D ("nextGaussSphere", +[] (R& r, const Vec3<double>&) { return gaussSphereRand<Vec3<double>, R> (r); });
    D ("nextGaussSphere", +[] (R& r, const Vec2<float>&) { return gaussSphereRand<Vec2<float>, R> (r); });
    D ("nextGaussSphere", +[] (R& r, const Vec2<double>&) { return gaussSphereRand<Vec2<double>, R> (r); });
    D ("nextHollowSphere", +[] (R& r, const Vec3<float>&) { return hollowSphereRand<Vec3<float>, R> (r); });
    D ("nextHollowSphere", +[] (R& r, const Vec3<double>&) { return hollowSphereRand<Vec3<double>, R> (r); });
    D ("nextHollowSphere", +[] (R& r, const Vec2<float>&) { return hollowSphereRand<Vec2<float>, R> (r); });
    D ("nextHollowSphere", +[] (R& r, const Vec2<double>&) { return hollowSphereRand<Vec2<double>, R> (r); });
    D ("nextSolidSphere", +[] (R& r, const Vec3<float>&) { return solidSphereRand<Vec3<float>, R> (r); });
    D ("nextSolidSphere", +[] (R& r, const Vec3<double>&) { return solidSphereRand<Vec3<double>, R> (r); });
    D ("nextSolidSphere", +[] (R& r, const Vec2<float>&) { return solidSphereRand<Vec2<float>, R> (r); });
    D ("nextSolidSphere", +[] (R& r, const Vec2<double>&) { return solidSphereRand<Vec2<double>, R> (r); });
}

BOOST_PYTHON_MODULE (verifref_frustum)
{
    frustum_refs<float> ("Frustumf", "FrustumTestf");
    frustum_refs<double> ("Frustumd", "FrustumTestd");
    rand_refs<Rand32, float> ("Rand32");
    rand_refs<Rand48, double> ("Rand48");
}
