// verifref_core: bitwise canonical form, independent copies and construction of scalar Imath values, done on the C++ object
// itself (not through the bindings' own accessors/constructors, which are themselves under test).
//   _bits(obj)        -> bytes "<Class>:<component bytes>" (every NaN written as one canonical NaN), None for foreign objects
//   _clone(obj)       -> new python object holding a copy (library copy constructor)
//   _make(name, seq)  -> object of class `name` whose components are seq (raw member values, no normalisation)
#include "verifref_common.hpp"
#include <cstring>
#include <cmath>

namespace {

template <class T> void put (std::string& s, const T& v) { s.append (reinterpret_cast<const char*> (&v), sizeof (T)); }
void put (std::string& s, const float& v) { float c = std::isnan (v) ? std::nanf ("") : v; s.append (reinterpret_cast<const char*> (&c), sizeof c); }
void put (std::string& s, const double& v) { double c = std::isnan (v) ? std::nan ("") : v; s.append (reinterpret_cast<const char*> (&c), sizeof c); }
template <class T> void put (std::string& s, const Vec2<T>& v) { put (s, v.x); put (s, v.y); }
template <class T> void put (std::string& s, const Vec3<T>& v) { put (s, v.x); put (s, v.y); put (s, v.z); }
template <class T> void put (std::string& s, const Vec4<T>& v) { put (s, v.x); put (s, v.y); put (s, v.z); put (s, v.w); }

template <class T> struct base_of { typedef typename T::BaseType type; };
template <class T> struct base_of<Quat<T>> { typedef T type; };
template <class T> struct base_of<Shear6<T>> { typedef T type; };

template <class T> struct Io
{   // default: the object is an array of its base type without padding (Vec, Color, Matrix, Quat, Shear6)
    typedef typename base_of<T>::type B;
    enum { n = sizeof (T) / sizeof (B) };
    static void bits (std::string& s, const T& v)
    {
        const B* p = reinterpret_cast<const B*> (&v);
        for (int i = 0; i < n; ++i) put (s, p[i]);
    }
    static T make (const bp::object& q)
    {
        if (vr::seqlen (q) != n) throw std::invalid_argument ("_make: wrong number of components");
        T v;
        B* p = reinterpret_cast<B*> (&v);
        for (int i = 0; i < n; ++i) p[i] = B (bp::extract<B> (q[i]) ());
        return v;
    }
};
template <class T> struct Io<Euler<T>>
{   // Vec3<T> + bit-fields: only the defined parts
    static void bits (std::string& s, const Euler<T>& e) { put (s, e.x); put (s, e.y); put (s, e.z); int o = int (e.order ()); put (s, o); }
    static Euler<T> make (const bp::object& q)
    {
        int order = bp::extract<int> (q[3]);
        Euler<T> e = Euler<T> (static_cast<typename Euler<T>::Order> (order));
        e.x = bp::extract<T> (q[0]); e.y = bp::extract<T> (q[1]); e.z = bp::extract<T> (q[2]);
        return e;
    }
};
template <class T> struct Io<Frustum<T>>
{
    static void bits (std::string& s, const Frustum<T>& f)
    {
        put (s, f.nearPlane ()); put (s, f.farPlane ()); put (s, f.left ()); put (s, f.right ()); put (s, f.top ()); put (s, f.bottom ());
        char o = f.orthographic () ? 1 : 0; put (s, o);
    }
    static Frustum<T> make (const bp::object& q)
    {
        return Frustum<T> (bp::extract<T> (q[0]), bp::extract<T> (q[1]), bp::extract<T> (q[2]), bp::extract<T> (q[3]), bp::extract<T> (q[4]),
                           bp::extract<T> (q[5]), bool (bp::extract<int> (q[6]) ()));
    }
};
template <class T> struct Io<Plane3<T>>
{
    static void bits (std::string& s, const Plane3<T>& p) { put (s, p.normal); put (s, p.distance); }
    static Plane3<T> make (const bp::object& q)
    {
        Plane3<T> p;
        p.normal = Vec3<T> (bp::extract<T> (q[0]), bp::extract<T> (q[1]), bp::extract<T> (q[2]));
        p.distance = bp::extract<T> (q[3]);
        return p;
    }
};
template <class T> struct Io<Line3<T>>
{
    static void bits (std::string& s, const Line3<T>& l) { put (s, l.pos); put (s, l.dir); }
    static Line3<T> make (const bp::object& q)
    {
        Line3<T> l;
        l.pos = Vec3<T> (bp::extract<T> (q[0]), bp::extract<T> (q[1]), bp::extract<T> (q[2]));
        l.dir = Vec3<T> (bp::extract<T> (q[3]), bp::extract<T> (q[4]), bp::extract<T> (q[5]));
        return l;
    }
};
template <class V> struct Io<Box<V>>
{
    typedef typename V::BaseType B;
    static void bits (std::string& s, const Box<V>& b) { put (s, b.min); put (s, b.max); }
    static Box<V> make (const bp::object& q)
    {
        const int n = int (V::dimensions ());
        if (vr::seqlen (q) != 2 * n) throw std::invalid_argument ("_make: wrong number of components");
        Box<V> b;
        for (int i = 0; i < n; ++i) { b.min[i] = B (bp::extract<B> (q[i]) ()); b.max[i] = B (bp::extract<B> (q[n + i]) ()); }
        return b;
    }
};
template <class T> struct IoRaw
{
    static void bits (std::string& s, const T& v) { s.append (reinterpret_cast<const char*> (&v), sizeof (T)); }
};
template <class T> struct Io<FrustumTest<T>>
{   // 14 Vec3 of packed plane equations, then the frustum (which has padding) and the camera matrix
    static void bits (std::string& s, const FrustumTest<T>& t)
    {
        static_assert (sizeof (FrustumTest<T>) >= 42 * sizeof (T) + sizeof (Frustum<T>) + sizeof (Matrix44<T>), "FrustumTest layout");
        const T* p = reinterpret_cast<const T*> (&t);
        for (int i = 0; i < 42; ++i) put (s, p[i]);
        Io<Frustum<T>>::bits (s, t.currentFrustum ());
        Matrix44<T> m = t.cameraMat ();
        for (int i = 0; i < 4; ++i) for (int j = 0; j < 4; ++j) put (s, m[i][j]);
    }
    static FrustumTest<T> make (const bp::object&) { throw std::invalid_argument ("_make: FrustumTest is built from a Frustum and a matrix"); }
};
template <> struct Io<Rand32> : IoRaw<Rand32>
{
    static Rand32 make (const bp::object& q) { return Rand32 ((unsigned long) bp::extract<unsigned long> (q[0]) ()); }
};
template <> struct Io<Rand48> : IoRaw<Rand48>
{
    static Rand48 make (const bp::object& q) { return Rand48 ((unsigned long) bp::extract<unsigned long> (q[0]) ()); }
};

template <class T> bool try_bits (const bp::object& o, const char* tag, std::string& out)
{
    bp::extract<const T&> e (o);
    if (!e.check ()) return false;
    out = tag; out += ':';
    Io<T>::bits (out, e ());
    return true;
}
template <class T> bool try_clone (const bp::object& o, bp::object& out)
{
    bp::extract<const T&> e (o);
    if (!e.check ()) return false;
    out = bp::object (T (e ()));
    return true;
}

// most-derived first: Color3<T> and Euler<T> are registered with Vec3<T> as base
#define VR_TYPES(X)                                                                                                        \
    X (Color3<unsigned char>, "Color3c") X (Color3<float>, "Color3f") X (Color4<unsigned char>, "Color4c") X (Color4<float>, "Color4f")  \
    X (Euler<float>, "Eulerf") X (Euler<double>, "Eulerd")                                                                 \
    X (Vec2<short>, "V2s") X (Vec2<int>, "V2i") X (Vec2<int64_t>, "V2i64") X (Vec2<float>, "V2f") X (Vec2<double>, "V2d")    \
    X (Vec3<unsigned char>, "V3c") X (Vec3<short>, "V3s") X (Vec3<int>, "V3i") X (Vec3<int64_t>, "V3i64") X (Vec3<float>, "V3f") X (Vec3<double>, "V3d") \
    X (Vec4<unsigned char>, "V4c") X (Vec4<short>, "V4s") X (Vec4<int>, "V4i") X (Vec4<int64_t>, "V4i64") X (Vec4<float>, "V4f") X (Vec4<double>, "V4d") \
    X (Matrix22<float>, "M22f") X (Matrix22<double>, "M22d") X (Matrix33<float>, "M33f") X (Matrix33<double>, "M33d")      \
    X (Matrix44<float>, "M44f") X (Matrix44<double>, "M44d") X (Quat<float>, "Quatf") X (Quat<double>, "Quatd")            \
    X (Box<Vec2<short>>, "Box2s") X (Box<Vec2<int>>, "Box2i") X (Box<Vec2<int64_t>>, "Box2i64") X (Box<Vec2<float>>, "Box2f") X (Box<Vec2<double>>, "Box2d") \
    X (Box<Vec3<short>>, "Box3s") X (Box<Vec3<int>>, "Box3i") X (Box<Vec3<int64_t>>, "Box3i64") X (Box<Vec3<float>>, "Box3f") X (Box<Vec3<double>>, "Box3d") \
    X (Shear6<float>, "Shear6f") X (Shear6<double>, "Shear6d") X (Line3<float>, "Line3f") X (Line3<double>, "Line3d")      \
    X (Plane3<float>, "Plane3f") X (Plane3<double>, "Plane3d") X (Frustum<float>, "Frustumf") X (Frustum<double>, "Frustumd") \
    X (FrustumTest<float>, "FrustumTestf") X (FrustumTest<double>, "FrustumTestd") X (Rand32, "Rand32") X (Rand48, "Rand48")

bp::object vr_bits (const bp::object& o)
{
    std::string s;
#define X(T, N) if (try_bits<T> (o, N, s)) return bp::object (bp::handle<> (PyBytes_FromStringAndSize (s.data (), s.size ())));
    VR_TYPES (X)
#undef X
    return bp::object ();   // None: not a scalar Imath value known here
}

bp::object vr_clone (const bp::object& o)
{
    bp::object r;
#define X(T, N) if (try_clone<T> (o, r)) return r;
    VR_TYPES (X)
#undef X
    return bp::object ();
}

bp::object vr_make (const std::string& name, const bp::object& seq)
{
#define X(T, N) if (name == N) return bp::object (Io<T>::make (seq));
    VR_TYPES (X)
#undef X
    throw std::invalid_argument ("_make: unknown class " + name);
}

} // namespace

BOOST_PYTHON_MODULE (verifref_core)
{
    bp::def ("_bits", &vr_bits);
    bp::def ("_clone", &vr_clone);
    bp::def ("_make", &vr_make);
}
