#include "verifref_vec.hpp"
BOOST_PYTHON_MODULE (verifref_vec4f)
{
    vr::vec4_refs<float> ("V4f");
    vr::vec4_refs<double> ("V4d");
}
