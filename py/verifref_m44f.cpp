#include "verifref_matrix.hpp"
BOOST_PYTHON_MODULE (verifref_m44f)
{
    vr::m44_refs<float> ("M44f");
}
