#include "verifref_vec.hpp"
BOOST_PYTHON_MODULE (verifref_vec3i)
{
    vr::vec3_refs<unsigned char> ("V3c");
    vr::vec3_refs<short> ("V3s");
    vr::vec3_refs<int> ("V3i");
    vr::vec3_refs<int64_t> ("V3i64");
}
