"""C19 exploration 1: exhaustive small-scope indexing of every 1-D array class against a Python list.

For one (class, length n) item: every int index -7..7, every slice with start, stop in {None,-7..7} and
step in {None,+-1,+-2,+-3,0}, every 0/1 mask of length n-1, n, n+1, for __getitem__, __setitem__ (scalar,
array of right and wrong length, masked with full-length and compressed sources), __len__, ifelse and
masked references -- on a writable array and on an independent read-only twin.

Model: a Python list L of element ids. Slice semantics are Python's own (slice.indices); a store through a
slice keeps the length (extended-slice rule "len(source) == len(selection)" for every step); a mask selects
[x for x, m in zip(L, mask) if m]; a masked store takes a full-length or a compressed source.
Anything else (out-of-range index, zero step, wrong lengths) must raise and leave the contents unchanged.
"""
import imath
from c19_common import Codec, int_array, masks_of, HUGE, huge_class, KEEP

IDX = list(range(-7, 8))
SS = [None] + IDX
STEPS = [None, 1, -1, 2, -2, 3, -3, 0]
NEWV = 50           # id of the scalar that is stored
SRC0 = 60           # ids of array sources: SRC0 + j
NSB = "index.slice.neg-step-start-before-begin.raises"   # narrow site: this input class + this symptom only
OTH0 = 80           # ids of ifelse 'other' / full-length masked sources


# registered converting constructors (add_explicit_construction_from_type) exercised on masked references
CONVERT = {"IntArray": ["FloatArray", "DoubleArray"], "FloatArray": ["IntArray", "DoubleArray"], "DoubleArray": ["IntArray", "FloatArray"],
           "V2iArray": ["V2fArray", "V2dArray", "V2sArray"], "V2fArray": ["V2iArray", "V2dArray"], "V2dArray": ["V2fArray"],
           "V3iArray": ["V3fArray", "V3dArray", "V3sArray"], "V3fArray": ["V3iArray", "V3dArray"], "V3dArray": ["V3fArray", "V3iArray"],
           "V4iArray": ["V4fArray", "V4dArray"], "V4fArray": ["V4iArray", "V4dArray"], "V4dArray": ["V4fArray"],
           "QuatfArray": ["QuatdArray"], "QuatdArray": ["QuatfArray"], "EulerfArray": ["EulerdArray"], "EulerdArray": ["EulerfArray"]}


def items(class_names, maxn=5):
    return [(c, n) for c in class_names for n in range(maxn + 1)]


class _X:
    def __init__(self, item, t):
        self.name, self.n = item
        self.t = t
        self.cd = cd = Codec(self.name)
        n = self.n
        self.base = list(range(1, n + 1))
        self.a = cd.build(self.base)
        self.ro = None
        if cd.has_ro:
            self.ro = cd.build(self.base); self.ro.makeReadOnly()
        self.newv = cd.mk(NEWV)
        self.src = [cd.build([SRC0 + j for j in range(ln)]) for ln in range(0, n + 3)]
        self.oth = [cd.build([OTH0 + j for j in range(ln)]) for ln in range(0, n + 2)]
        self.wantbase = cd.want(self.base)
        self._oc = {}

    def other_codec(self, oname):
        c = self._oc.get(oname)
        if c is None: c = self._oc[oname] = Codec(oname)
        return c

    # -- plumbing -------------------------------------------------------------------------------
    def ctx(self, what):
        return "%s n=%d %s" % (self.name, self.n, what)

    def attempt(self, f):
        """-> (value, None) or (None, exception-type-name)."""
        try:
            return f(), None
        except Exception as e:
            nm = type(e).__name__
            if nm == "ArgumentError":           # Boost.Python overload mismatch = harness mistake, never an expected outcome
                self.t.fail("index.harness.argument-error", str(e)[:200], "call matches a registered overload", nm)
            return None, nm

    def state_is(self, site, what, L, arr=None):
        self.t.add("evaluations")
        got = self.cd.keys(self.a if arr is None else arr)
        want = self.cd.want(L)
        if got != want:
            self.t.fail(site, self.ctx(what), want, got)
            return False
        return True

    def restore(self):
        a, mk = self.a, self.cd.mk
        for i, k in enumerate(self.base): a[i] = mk(k)

    def must_raise(self, site, what, f, arr=None, L=None):
        """f must raise and leave the array (default: self.a at baseline) unchanged."""
        self.t.add("transitions")
        _, exc = self.attempt(f)
        if exc is None:
            self.t.fail(site, self.ctx(what), "an exception, contents unchanged", "no exception; contents now %s" %
                        self.cd.keys(self.a if arr is None else arr))
            if arr is None: self.restore()
            return
        if not self.state_is(site, what + " (raised %s)" % exc, self.base if L is None else L, arr):
            if arr is None: self.restore()

    def ro_store(self, site, what, f, nonempty):
        """A store through the read-only twin. Must raise when it selects at least one element; never changes it."""
        if self.ro is None: return
        self.t.add("transitions")
        _, exc = self.attempt(f)
        got = self.cd.keys(self.ro)
        if got != self.wantbase:
            self.t.fail(site, self.ctx(what), "read-only contents unchanged " + str(self.wantbase), got)
            self.ro = self.cd.build(self.base); self.ro.makeReadOnly()
        elif exc is None and nonempty:
            self.t.fail(site, self.ctx(what), "an exception (array is read-only)", "no exception")

    def same_elems(self, site, what, r, L, want_type=True):
        self.t.add("transitions")
        if r is None: return False
        if want_type and type(r) is not self.cd.C:
            self.t.fail(site, self.ctx(what), self.cd.C.__name__, type(r).__name__); return False
        got = self.cd.keys(r); want = self.cd.want(L)
        if got != want:
            self.t.fail(site, self.ctx(what), want, got); return False
        return True

    # -- (A) integer indices ----------------------------------------------------------------------
    def ints(self):
        t, cd, n, a, base = self.t, self.cd, self.n, self.a, self.base
        for i in IDX:
            inr = -n <= i < n
            t.cls("index.int.out-of-range" if not inr else ("index.int.negative" if i < 0 else "index.int.in-range"))
            what = "a[%d]" % i
            for arr, tag in ((a, ""), (self.ro, " (read-only twin)")):
                if arr is None: continue
                t.add("transitions")
                v, exc = self.attempt(lambda: arr[i])
                if inr:
                    if exc or repr(v) != cd.key(base[i]):
                        t.fail("index.getitem.int", self.ctx(what + tag), cd.key(base[i]), exc or repr(v))
                elif exc is None:
                    t.fail("index.getitem.int.out-of-range", self.ctx(what + tag), "an exception", repr(v))
            # scalar store
            what = "a[%d]=elem" % i
            if inr:
                t.add("transitions")
                _, exc = self.attempt(lambda: a.__setitem__(i, self.newv))
                L = list(base); L[i] = NEWV
                if exc: t.fail("index.setitem.scalar.int", self.ctx(what), "stored", exc)
                self.state_is("index.setitem.scalar.int", what, L)
                self.restore()
            else:
                self.must_raise("index.setitem.scalar.int.out-of-range", what, lambda: a.__setitem__(i, self.newv))
            self.ro_store("index.readonly.setitem.scalar.int", "ro[%d]=elem" % i, lambda: self.ro.__setitem__(i, self.newv), inr)
            # array source with an integer index: the bindings treat it as a selection of length 1
            what = "a[%d]=array(len 1)" % i
            if inr:
                t.add("transitions")
                _, exc = self.attempt(lambda: a.__setitem__(i, self.src[1]))
                L = list(base)
                if exc is None: L[i] = SRC0
                self.state_is("index.setitem.array.int", what, L)
                self.restore()
            else:
                self.must_raise("index.setitem.array.int.out-of-range", what, lambda: a.__setitem__(i, self.src[1]))
            self.must_raise("index.setitem.array.int.wrong-length", "a[%d]=array(len 2)" % i, lambda: a.__setitem__(i, self.src[2]))

    # -- (A2) integer indices far out of range ------------------------------------------------------
    def huge_ints(self):
        """Indices of magnitude 2^31 .. 2^64: every one is out of range for every array here, so every access must raise
        and every store must leave the contents alone -- also when the value does not even fit the C index type."""
        t, cd, n, a = self.t, self.cd, self.n, self.a
        v = m = None
        if n >= 2:
            m = [1] * (n - 1) + [0]
            v = a[int_array(m)]
        for k in HUGE:
            hc = huge_class(k)
            t.cls("index.int.huge." + hc)
            tag = "overflowing-index" if hc == "overflowing" else "huge-index"
            for arr, nm in ((a, "a"), (self.ro, "ro")):
                if arr is None: continue
                t.add("transitions")
                r, exc = self.attempt(lambda: arr[k])
                if exc is None: t.fail("index.getitem.int." + tag, self.ctx("%s[%d]" % (nm, k)), "an exception", repr(r))
            self.must_raise("index.setitem.int." + tag, "a[%d]=elem" % k, lambda: a.__setitem__(k, self.newv))
            self.must_raise("index.setitem.int." + tag, "a[%d]=array(len 1)" % k, lambda: a.__setitem__(k, self.src[1]))
            self.ro_store("index.readonly.setitem.scalar.int." + tag, "ro[%d]=elem" % k, lambda: self.ro.__setitem__(k, self.newv), True)
            if v is not None:
                ms = "".join(map(str, m))
                t.add("transitions")
                r, exc = self.attempt(lambda: v[k])
                if exc is None: t.fail("index.mask.view.getitem." + tag, self.ctx("v=a[mask %s]; v[%d]" % (ms, k)), "an exception", repr(r))
                self.must_raise("index.setitem.int." + tag, "v=a[mask %s]; v[%d]=elem" % (ms, k), lambda: v.__setitem__(k, self.newv))

    def huge_slices(self):
        """The same magnitudes as slice bounds and steps: a Python list clamps them (slice.indices), so must the arrays."""
        t, cd, n, a, base = self.t, self.cd, self.n, self.a, self.base
        HS = [2**31, -2**31 - 1, 2**63 - 1, -2**63, 2**63, -2**64]
        H = [None, 1, -1] + HS
        for start in H:
            for stop in H:
                for step in [None, 1, -1, 2, -2] + HS:
                    if not any(isinstance(x, int) and abs(x) > 7 for x in (start, stop, step)): continue
                    sl = slice(start, stop, step)
                    what = "a[%s:%s:%s]" % tuple("" if x is None else x for x in (start, stop, step))
                    idxs = list(range(*sl.indices(n)))
                    k = len(idxs)
                    sfx = sl.indices(n)[0] < 0
                    t.cls("slice.huge-bound.neg-step-start-before-begin" if sfx else "slice.huge-bound")
                    sel = [base[j] for j in idxs]
                    r, exc = self.attempt(lambda: a[sl])
                    if exc: t.fail(NSB if sfx else "index.getitem.slice.huge-bound", self.ctx(what), cd.want(sel), exc)
                    elif not self.same_elems("index.getitem.slice.huge-bound", what, r, sel): continue
                    t.add("transitions")
                    _, exc = self.attempt(lambda: a.__setitem__(sl, self.newv))
                    L = list(base)
                    for j in idxs: L[j] = NEWV
                    if exc: t.fail(NSB if sfx else "index.setitem.scalar.slice.huge-bound", self.ctx(what + "=elem"), "stored", exc)
                    self.state_is("index.setitem.scalar.slice.huge-bound", what + "=elem", L)
                    if k: self.restore()
                    t.add("transitions")
                    _, exc = self.attempt(lambda: a.__setitem__(sl, self.src[k]))
                    L = list(base)
                    for q, j in enumerate(idxs): L[j] = SRC0 + q
                    if exc: t.fail(NSB if sfx else "index.setitem.array.slice.huge-bound", self.ctx(what + "=array(len %d)" % k), "stored", exc)
                    self.state_is("index.setitem.array.slice.huge-bound", what + "=array(len %d)" % k, L)
                    if k: self.restore()
                    self.must_raise("index.setitem.array.slice.huge-bound.wrong-length", what + "=array(len %d)" % (k + 1),
                                    lambda: a.__setitem__(sl, self.src[k + 1]))
                    self.ro_store("index.readonly.setitem.scalar.slice", "ro" + what[1:] + "=elem", lambda: self.ro.__setitem__(sl, self.newv), k > 0)

    # -- (B) slices -------------------------------------------------------------------------------
    def slices(self):
        t, cd, n, a, base = self.t, self.cd, self.n, self.a, self.base
        for start in SS:
            for stop in SS:
                for step in STEPS:
                    sl = slice(start, stop, step)
                    what = "a[%s:%s:%s]" % tuple("" if x is None else x for x in (start, stop, step))
                    if step == 0:
                        t.cls("slice.zero-step")
                        t.add("transitions")
                        v, exc = self.attempt(lambda: a[sl])
                        if exc is None: t.fail("index.getitem.slice.zero-step", self.ctx(what), "an exception", cd.keys(v))
                        self.must_raise("index.setitem.scalar.slice.zero-step", what + "=elem", lambda: a.__setitem__(sl, self.newv))
                        self.must_raise("index.setitem.array.slice.zero-step", what + "=array", lambda: a.__setitem__(sl, self.src[n]))
                        continue
                    idxs = list(range(*sl.indices(n)))
                    k = len(idxs)
                    # Input class of its own: a negative step whose start lies before the first element. Python clamps such a
                    # start to -1 and selects nothing; it gets its own site suffix so that a failure confined to this class
                    # cannot hide, or be hidden by, any other slice failure.
                    sfx = True if sl.indices(n)[0] < 0 else False
                    if sfx: t.cls("slice.neg-step-start-before-begin")
                    elif k == 0: t.cls("slice.empty")
                    elif step is not None and step < 0: t.cls("slice.negative-step")
                    elif (start is not None and not -n <= start <= n) or (stop is not None and not -n <= stop <= n): t.cls("slice.clamped")
                    else: t.cls("slice.generic")
                    sel = [base[j] for j in idxs]
                    r, exc = self.attempt(lambda: a[sl])
                    if exc: t.fail(NSB if sfx else "index.getitem.slice", self.ctx(what), cd.want(sel), exc)
                    else: self.same_elems("index.getitem.slice", what, r, sel)
                    if self.ro is not None:
                        r, exc = self.attempt(lambda: self.ro[sl])
                        if exc: t.fail(NSB if sfx else "index.getitem.slice", self.ctx(what + " (read-only twin)"), cd.want(sel), exc)
                        else: self.same_elems("index.getitem.slice", what + " (read-only twin)", r, sel)
                    # scalar store
                    t.add("transitions")
                    _, exc = self.attempt(lambda: a.__setitem__(sl, self.newv))
                    L = list(base)
                    for j in idxs: L[j] = NEWV
                    if exc: t.fail(NSB if sfx else "index.setitem.scalar.slice", self.ctx(what + "=elem"), "stored", exc)
                    self.state_is("index.setitem.scalar.slice", what + "=elem", L)
                    if k: self.restore()
                    # array store, right length
                    t.add("transitions")
                    _, exc = self.attempt(lambda: a.__setitem__(sl, self.src[k]))
                    L = list(base)
                    for q, j in enumerate(idxs): L[j] = SRC0 + q
                    if exc: t.fail(NSB if sfx else "index.setitem.array.slice", self.ctx(what + "=array(len %d)" % k), "stored", exc)
                    self.state_is("index.setitem.array.slice", what + "=array(len %d)" % k, L)
                    if k: self.restore()
                    # array store whose source is THE ARRAY ITSELF (a slice selecting all n elements): a Python list reads the
                    # whole right-hand side before it writes (L[::-1] = L reverses L)
                    if k == n and n >= 2:
                        t.add("transitions"); t.cls("index.setitem.array.slice.source-is-self")
                        _, exc = self.attempt(lambda: a.__setitem__(sl, a))
                        L = list(base); L[sl] = list(base)
                        if exc: t.fail("index.setitem.array.slice.source-is-self", self.ctx(what + "=a"), "stored", exc)
                        self.state_is("index.setitem.array.slice.source-is-self", what + "=a (the array itself)", L)
                        self.restore()
                    # array store, wrong lengths
                    self.must_raise("index.setitem.array.slice.wrong-length", what + "=array(len %d)" % (k + 1),
                                    lambda: a.__setitem__(sl, self.src[k + 1]))
                    if k >= 1:
                        self.must_raise("index.setitem.array.slice.wrong-length", what + "=array(len %d)" % (k - 1),
                                        lambda: a.__setitem__(sl, self.src[k - 1]))
                    self.ro_store("index.readonly.setitem.scalar.slice", "ro" + what[1:] + "=elem", lambda: self.ro.__setitem__(sl, self.newv), k > 0)
                    self.ro_store("index.readonly.setitem.array.slice", "ro" + what[1:] + "=array", lambda: self.ro.__setitem__(sl, self.src[k]), k > 0)

    # -- (C) masks --------------------------------------------------------------------------------
    def masks(self):
        t, cd, n, a, base = self.t, self.cd, self.n, self.a, self.base
        for ml in (n - 1, n, n + 1):
            if ml < 0: continue
            for mask in masks_of(ml):
                m = int_array(mask)
                ms = "mask=" + "".join(map(str, mask)) if mask else "mask=<empty>"
                if ml != n:
                    t.cls("mask.wrong-length")
                    t.add("transitions")
                    v, exc = self.attempt(lambda: a[m])
                    if exc is None: t.fail("index.mask.getitem.wrong-length", self.ctx("a[%s]" % ms), "an exception", cd.keys(v))
                    self.must_raise("index.mask.setitem.scalar.wrong-length", "a[%s]=elem" % ms, lambda: a.__setitem__(m, self.newv))
                    cnt = sum(mask)
                    for ln in sorted({n, cnt, ml}):
                        self.must_raise("index.mask.setitem.array.wrong-length", "a[%s]=array(len %d)" % (ms, ln),
                                        lambda: a.__setitem__(m, self.src[ln]))
                    if cd.has_ifelse:
                        self.must_raise("index.ifelse.wrong-length", "a.ifelse(%s, elem)" % ms, lambda: a.ifelse(m, self.newv))
                        self.must_raise("index.ifelse.wrong-length", "a.ifelse(%s, array(len n))" % ms, lambda: a.ifelse(m, self.oth[n]))
                        self.must_raise("index.ifelse.wrong-length", "a.ifelse(%s, array(len mask))" % ms, lambda: a.ifelse(m, self.oth[ml]))
                    continue
                sel = [i for i in range(n) if mask[i]]
                cnt = len(sel)
                t.cls("mask.all-zero" if cnt == 0 else ("mask.all-one" if cnt == n else "mask.mixed"))
                # masked reference: read, write through, bounds
                v, exc = self.attempt(lambda: a[m])
                if exc:
                    t.fail("index.mask.getitem", self.ctx("a[%s]" % ms), cd.want([base[i] for i in sel]), exc)
                else:
                    ok = self.same_elems("index.mask.getitem", "a[%s]" % ms, v, [base[i] for i in sel])
                    if ok:
                        if cd.has_ro and v.writable() is not True:
                            t.fail("index.mask.getitem", self.ctx("a[%s].writable()" % ms), True, v.writable())
                        _, e1 = self.attempt(lambda: v[cnt]); _, e2 = self.attempt(lambda: v[-cnt - 1])
                        t.add("transitions", 2)
                        if e1 is None or e2 is None:
                            t.fail("index.mask.view.out-of-range", self.ctx("v=a[%s]; v[%d], v[%d]" % (ms, cnt, -cnt - 1)), "exceptions", (e1, e2))
                        for sl, nm in ((slice(None, None, -1), "v[::-1]"), (slice(1, None), "v[1:]"), (slice(None, None, 2), "v[::2]")):
                            sfx = True if sl.indices(cnt)[0] < 0 else False
                            r, exc = self.attempt(lambda: v[sl])
                            if exc: t.fail(NSB if sfx else "index.mask.view.slice", self.ctx("v=a[%s]; %s" % (ms, nm)), "slice of the selection", exc)
                            else: self.same_elems("index.mask.view.slice", "v=a[%s]; %s" % (ms, nm), r, [base[i] for i in sel][sl])
                        # element stores through the view
                        L = list(base)
                        t.add("transitions")
                        for j in range(cnt):
                            _, exc = self.attempt(lambda: v.__setitem__(j - cnt if j & 1 else j, cd.mk(70 + j)))
                            if exc: t.fail("index.mask.view.write-through", self.ctx("v=a[%s]; v[%d]=elem" % (ms, j)), "stored", exc)
                            L[sel[j]] = 70 + j
                        self.state_is("index.mask.view.write-through", "v=a[%s]; v[j]=elem for every j" % ms, L)
                        if cnt: self.restore()
                        # slice stores through the view
                        t.add("transitions")
                        _, exc = self.attempt(lambda: v.__setitem__(slice(None, None, -1), self.src[cnt]))
                        L = list(base)
                        for q, i in enumerate(reversed(sel)): L[i] = SRC0 + q
                        sfx = True if cnt == 0 else False
                        if exc: t.fail(NSB if sfx else "index.mask.view.write-through", self.ctx("v=a[%s]; v[::-1]=array" % ms), "stored", exc)
                        self.state_is("index.mask.view.write-through", "v=a[%s]; v[::-1]=array(len %d)" % (ms, cnt), L)
                        if cnt: self.restore()
                        t.add("transitions")
                        _, exc = self.attempt(lambda: v.__setitem__(slice(1, None, 2), self.newv))
                        L = list(base)
                        for i in sel[1::2]: L[i] = NEWV
                        if exc: t.fail("index.mask.view.write-through", self.ctx("v=a[%s]; v[1::2]=elem" % ms), "stored", exc)
                        self.state_is("index.mask.view.write-through", "v=a[%s]; v[1::2]=elem" % ms, L)
                        if cnt > 1: self.restore()
                        self.must_raise("index.mask.view.wrong-length", "v=a[%s]; v[:]=array(len %d)" % (ms, cnt + 1),
                                        lambda: v.__setitem__(slice(None), self.src[cnt + 1]))
                        # converting constructors applied to the masked reference: a dense, independent array of the selection
                        for oname in CONVERT.get(self.name, ()):
                            ocd = self.other_codec(oname)
                            t.add("transitions")
                            c, exc = self.attempt(lambda: ocd.C(v))
                            what = "v=a[%s]; c=%s(v)" % (ms, oname)
                            if exc: t.fail("index.mask.view.convert", self.ctx(what), ocd.want([base[i] for i in sel]), exc); continue
                            got = ocd.keys(c)
                            if got != ocd.want([base[i] for i in sel]):
                                t.fail("index.mask.view.convert", self.ctx(what), ocd.want([base[i] for i in sel]), got); continue
                            for j in range(cnt): c[j] = ocd.mk(70 + j)          # every element of the copy is writable storage of its own
                            if ocd.keys(c) != ocd.want([70 + j for j in range(cnt)]):
                                t.fail("index.mask.view.convert", self.ctx(what + "; c[j]=elem"), ocd.want([70 + j for j in range(cnt)]), ocd.keys(c))
                            self.state_is("index.mask.view.convert", what + "; c[j]=elem must not touch a", base)
                if self.ro is not None:
                    rv, exc = self.attempt(lambda: self.ro[m])
                    if exc:
                        t.fail("index.mask.getitem", self.ctx("ro[%s] (read-only twin)" % ms), cd.want([base[i] for i in sel]), exc)
                    elif self.same_elems("index.mask.getitem", "ro[%s] (read-only twin)" % ms, rv, [base[i] for i in sel]):
                        if rv.writable() is not False:
                            t.fail("index.readonly.masked-reference.flag", self.ctx("ro[%s].writable()" % ms), False, rv.writable())
                        self.ro_store("index.readonly.masked-reference.setitem", "rv=ro[%s]; rv[0]=elem" % ms, lambda: rv.__setitem__(0, self.newv), cnt > 0)
                        self.ro_store("index.readonly.masked-reference.setitem", "rv=ro[%s]; rv[:]=elem" % ms, lambda: rv.__setitem__(slice(None), self.newv), cnt > 0)
                        self.ro_store("index.readonly.masked-reference.setitem", "rv=ro[%s]; rv[:]=array" % ms, lambda: rv.__setitem__(slice(None), self.src[cnt]), cnt > 0)
                # masked stores
                t.add("transitions")
                _, exc = self.attempt(lambda: a.__setitem__(m, self.newv))
                L = list(base)
                for i in sel: L[i] = NEWV
                if exc: t.fail("index.mask.setitem.scalar", self.ctx("a[%s]=elem" % ms), "stored", exc)
                self.state_is("index.mask.setitem.scalar", "a[%s]=elem" % ms, L)
                if cnt: self.restore()
                t.add("transitions")
                _, exc = self.attempt(lambda: a.__setitem__(m, self.oth[n]))
                L = list(base)
                for i in sel: L[i] = OTH0 + i
                if exc: t.fail("index.mask.setitem.array.full", self.ctx("a[%s]=array(len n)" % ms), "stored", exc)
                self.state_is("index.mask.setitem.array.full", "a[%s]=array(len n)" % ms, L)
                if cnt: self.restore()
                if cnt != n:
                    t.add("transitions")
                    _, exc = self.attempt(lambda: a.__setitem__(m, self.src[cnt]))
                    L = list(base)
                    for q, i in enumerate(sel): L[i] = SRC0 + q
                    if exc: t.fail("index.mask.setitem.array.compressed", self.ctx("a[%s]=array(len %d)" % (ms, cnt)), "stored", exc)
                    self.state_is("index.mask.setitem.array.compressed", "a[%s]=array(len %d)" % (ms, cnt), L)
                    if cnt: self.restore()
                for ln in sorted({cnt + 1, cnt - 1, n + 1, n - 1} - {n, cnt, -1}):
                    self.must_raise("index.mask.setitem.array.wrong-length", "a[%s]=array(len %d)" % (ms, ln),
                                    lambda: a.__setitem__(m, self.src[ln]))
                self.ro_store("index.readonly.mask.setitem.scalar", "ro[%s]=elem" % ms, lambda: self.ro.__setitem__(m, self.newv), cnt > 0)
                self.ro_store("index.readonly.mask.setitem.array", "ro[%s]=array(len n)" % ms, lambda: self.ro.__setitem__(m, self.oth[n]), cnt > 0)
                # ifelse
                if cd.has_ifelse:
                    wv = [base[i] if mask[i] else OTH0 + i for i in range(n)]
                    ws = [base[i] if mask[i] else NEWV for i in range(n)]
                    r, exc = self.attempt(lambda: a.ifelse(m, self.oth[n]))
                    if exc: t.fail("index.ifelse.array", self.ctx("a.ifelse(%s, array)" % ms), cd.want(wv), exc)
                    else: self.same_elems("index.ifelse.array", "a.ifelse(%s, array)" % ms, r, wv)
                    r, exc = self.attempt(lambda: a.ifelse(m, self.newv))
                    if exc: t.fail("index.ifelse.scalar", self.ctx("a.ifelse(%s, elem)" % ms), cd.want(ws), exc)
                    else: self.same_elems("index.ifelse.scalar", "a.ifelse(%s, elem)" % ms, r, ws)
                    self.state_is("index.ifelse.modifies-self", "a.ifelse(%s, ...)" % ms, base)
                    for ln in (n - 1, n + 1):
                        if ln >= 0:
                            self.must_raise("index.ifelse.wrong-length", "a.ifelse(%s, array(len %d))" % (ms, ln), lambda: a.ifelse(m, self.oth[ln]))
                    if self.ro is not None:
                        # ifelse only reads its receiver, so it must work on a read-only array too
                        r, exc = self.attempt(lambda: self.ro.ifelse(m, self.oth[n]))
                        if exc: t.fail("index.ifelse.readonly-self", self.ctx("ro.ifelse(%s, array) on a read-only array" % ms), cd.want(wv), exc)
                        else: self.same_elems("index.ifelse.array", "ro.ifelse(%s, array)" % ms, r, wv)
                        r, exc = self.attempt(lambda: self.ro.ifelse(m, self.newv))
                        if exc: t.fail("index.ifelse.readonly-self", self.ctx("ro.ifelse(%s, elem) on a read-only array" % ms), cd.want(ws), exc)
                        else: self.same_elems("index.ifelse.scalar", "ro.ifelse(%s, elem)" % ms, r, ws)
                        self.state_is("index.ifelse.modifies-self", "ro.ifelse(%s, ...)" % ms, base, self.ro)

    # -- (D) mask values other than 0/1, mask objects other than a fresh dense IntArray ---------------
    def mask_objects(self):
        """An integer mask selects the elements whose mask entry is NON-ZERO (upstream's own test-suite counts
        "numNonZeroMaskEntries": `if mask[i]`), whatever the non-zero value and however the mask array is laid out:
        a strided IntArray (the .y view of a V3iArray whose .x/.z hold the opposite pattern), a masked reference of a longer
        IntArray (the mask entries are every second element of its storage), a read-only IntArray."""
        t, cd, n, a, base = self.t, self.cd, self.n, self.a, self.base
        if n == 0: return
        IMIN = -2**31
        ENC = [("all 2", lambda q: 2), ("all -1", lambda q: -1), ("all INT_MIN", lambda q: IMIN), ("2,-1,INT_MIN,3,..", lambda q: (2, -1, IMIN, 3)[q % 4])]

        def strided(vals):
            o = imath.V3iArray(n)
            for i, x in enumerate(vals): o[i] = imath.V3i(0 if x else 1, x, 0 if x else 7)
            m = o.y; KEEP.append(o); return m

        def masked(vals):
            big = int_array([vals[i // 2] if i % 2 else (0 if vals[min(i // 2, n - 1)] else 5) for i in range(2 * n + 1)])
            return big[int_array([i % 2 for i in range(2 * n + 1)])]

        def readonly(vals):
            m = int_array(vals); m.makeReadOnly(); return m

        def readonly_masked(vals):
            big = int_array([vals[i // 2] if i % 2 else (0 if vals[min(i // 2, n - 1)] else 5) for i in range(2 * n + 1)]); big.makeReadOnly()
            return big[int_array([i % 2 for i in range(2 * n + 1)])]

        variants = [("nonzero-values", nm, (lambda bits, f=f: int_array([f(q) if b else 0 for q, b in enumerate(bits)]))) for nm, f in ENC]
        for kind, mkm in (("strided-mask", strided), ("masked-mask", masked), ("readonly-mask", readonly), ("readonly-masked-mask", readonly_masked)):
            variants.append((kind, "0/1", (lambda bits, mkm=mkm: mkm(list(bits)))))
            variants.append((kind, "2,-1,INT_MIN,3,..", (lambda bits, mkm=mkm: mkm([(2, -1, IMIN, 3)[q % 4] if b else 0 for q, b in enumerate(bits)]))))
        for bits in masks_of(n):
            sel = [i for i in range(n) if bits[i]]
            cnt = len(sel)
            for kind, enc, make in variants:
                if kind == "nonzero-values" and cnt == 0: continue
                t.cls("mask." + kind)
                m = make(bits)
                ms = "%s mask %s (entries %s)" % (kind, "".join(map(str, bits)), enc)
                site = "index.mask.%s." % kind
                if [m[i] != 0 for i in range(len(m))] != [b != 0 for b in bits]:
                    t.fail("index.harness.mask-object", self.ctx(ms), bits, [m[i] for i in range(len(m))]); continue
                r, exc = self.attempt(lambda: a[m])
                if exc: t.fail(site + "getitem", self.ctx("a[%s]" % ms), cd.want([base[i] for i in sel]), exc)
                else: self.same_elems(site + "getitem", "a[%s]" % ms, r, [base[i] for i in sel])
                if self.ro is not None:
                    r, exc = self.attempt(lambda: self.ro[m])
                    if exc: t.fail(site + "getitem", self.ctx("ro[%s] (read-only twin)" % ms), cd.want([base[i] for i in sel]), exc)
                    else: self.same_elems(site + "getitem", "ro[%s] (read-only twin)" % ms, r, [base[i] for i in sel])
                t.add("transitions")
                _, exc = self.attempt(lambda: a.__setitem__(m, self.newv))
                L = list(base)
                for i in sel: L[i] = NEWV
                if exc: t.fail(site + "setitem", self.ctx("a[%s]=elem" % ms), "stored", exc)
                self.state_is(site + "setitem", "a[%s]=elem" % ms, L)
                if cnt: self.restore()
                t.add("transitions")
                _, exc = self.attempt(lambda: a.__setitem__(m, self.oth[n]))
                L = list(base)
                for i in sel: L[i] = OTH0 + i
                if exc: t.fail(site + "setitem", self.ctx("a[%s]=array(len n)" % ms), "stored", exc)
                self.state_is(site + "setitem", "a[%s]=array(len n)" % ms, L)
                if cnt: self.restore()
                if cnt != n:
                    t.add("transitions")
                    _, exc = self.attempt(lambda: a.__setitem__(m, self.src[cnt]))
                    L = list(base)
                    for q, i in enumerate(sel): L[i] = SRC0 + q
                    if exc: t.fail(site + "setitem", self.ctx("a[%s]=array(len %d)" % (ms, cnt)), "stored", exc)
                    self.state_is(site + "setitem", "a[%s]=array(len %d)" % (ms, cnt), L)
                    if cnt: self.restore()
                    bad = cnt + 1 if cnt + 1 != n else n + 1
                    self.must_raise(site + "setitem.wrong-length", "a[%s]=array(len %d)" % (ms, bad), lambda: a.__setitem__(m, self.src[bad]))
                self.ro_store("index.readonly.mask.setitem.scalar", "ro[%s]=elem" % ms, lambda: self.ro.__setitem__(m, self.newv), cnt > 0)
                if cd.has_ifelse:
                    ws = [base[i] if bits[i] else NEWV for i in range(n)]
                    wv = [base[i] if bits[i] else OTH0 + i for i in range(n)]
                    r, exc = self.attempt(lambda: a.ifelse(m, self.newv))
                    if exc: t.fail(site + "ifelse", self.ctx("a.ifelse(%s, elem)" % ms), cd.want(ws), exc)
                    else: self.same_elems(site + "ifelse", "a.ifelse(%s, elem)" % ms, r, ws)
                    r, exc = self.attempt(lambda: a.ifelse(m, self.oth[n]))
                    if exc: t.fail(site + "ifelse", self.ctx("a.ifelse(%s, array)" % ms), cd.want(wv), exc)
                    else: self.same_elems(site + "ifelse", "a.ifelse(%s, array)" % ms, r, wv)
                # the mask object itself is only read
                if [m[i] != 0 for i in range(len(m))] != [b != 0 for b in bits]:
                    t.fail(site + "mask-modified", self.ctx(ms), bits, [m[i] for i in range(len(m))])

    def run(self):
        t, n = self.t, self.n
        t.add("states")                                    # one (class, length) array configuration
        t.add("transitions", 2)
        if len(self.a) != n: t.fail("index.len", self.ctx("len(a)"), n, len(self.a))
        if self.ro is not None and len(self.ro) != n: t.fail("index.len", self.ctx("len(ro)"), n, len(self.ro))
        if not self.state_is("index.build", "a[i]=elem for i in range(n); [a[i] ...]", self.base): return
        self.ints(); self.huge_ints(); self.slices(); self.huge_slices(); self.masks(); self.mask_objects()
        self.state_is("index.final-state", "array back at its baseline after all cases", self.base)
        if self.ro is not None: self.state_is("index.readonly.final-state", "read-only twin untouched after all cases", self.base, self.ro)
        if n == 3 and self.name in ("IntArray", "V3fArray", "StringArray"): t.sample("%s n=3: 15 int indices, %d slices, %d masks x get/set/ifelse" % (self.name, len(SS) ** 2 * len(STEPS), 4 + 8 + 16))


def run_item(item, t):
    _X(item, t).run()


CLASSES = ["mask.nonzero-values", "mask.strided-mask", "mask.masked-mask", "mask.readonly-mask", "mask.readonly-masked-mask", "index.int.huge.int-range", "index.int.huge.ssize-range", "index.int.huge.overflowing", "slice.huge-bound", "slice.huge-bound.neg-step-start-before-begin",
           "index.setitem.array.slice.source-is-self", "index.int.in-range", "index.int.negative", "index.int.out-of-range", "slice.zero-step", "slice.empty",
           "slice.negative-step", "slice.neg-step-start-before-begin", "slice.clamped", "slice.generic", "mask.wrong-length", "mask.all-zero", "mask.all-one", "mask.mixed"]
