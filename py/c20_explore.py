#!/usr/bin/env python3.11
"""C20 — vectorised PyImath operations equal element-wise scalar operations under ANY task partition.

Exhaustive exploration, on the real built module, of the schedule space that the WorkerPool seam
exposes.  Task bodies contain no synchronisation operations, so a worker can only be switched
between element iterations; pre-empting worker A at element i is exactly "split A's range at i and
run another piece in between".  Hence every interleaving of k workers with at most p pre-emptions
at element granularity is one (partition into <= k+p contiguous pieces, order of the pieces, worker
id per piece), and that finite set is what this explorer enumerates through py/verifpool.cpp's
ScriptedPool for EVERY exported entry point that takes or returns a FixedArray (discovered by
introspection of the Boost.Python signatures), for every plain/masked(/unmasked-length) combination
of its array arguments.

Oracles
  O1  differential: result and every argument (and the storage behind masked references) after a
      scheduled run are bit-for-bit those of the run with no pool installed.
  O2  footprint: a single piece [s,e) run alone writes, in in-place outputs, only positions s..e-1
      (everything else keeps its prior value), writes there what the full run wrote, and leaves all
      pure inputs untouched (with O1: Bernstein's conditions => independence of concurrency as far
      as array memory is concerned).
  O3  scalar: each result element equals what the scalar binding of the same name returns for the
      elements at that position (exact for integer/boolean results, else within 8 ulp of the
      element type at the magnitude of the terms).
  O4  argument arrays of mismatched length raise instead of reading out of bounds.
"""
import collections, itertools, json, math, os, re, signal, struct, sys, time, traceback

sys.path.insert(0, os.path.dirname(os.path.abspath(__file__)))
import vfreport
import imath
import verifpool
import verifdigest

R = vfreport.Report("C20").parse(sys.argv)
NPROC = int(os.environ.get("VERIF_THREADS", "16"))

# ------------------------------------------------------------------------------------------------
# discovery: parse Boost.Python docstrings ("C++ signature :" lines)
# ------------------------------------------------------------------------------------------------
SIG_RE = re.compile(r"C\+\+ signature :\s*\n\s*(.+)")


def split_args(s):
    out, depth, cur = [], 0, ""
    for ch in s:
        if ch in "<(":
            depth += 1
        if ch in ">)":
            depth -= 1
        if ch == "," and depth == 0:
            out.append(cur.strip()); cur = ""
        else:
            cur += ch
    if cur.strip():
        out.append(cur.strip())
    return out


def overloads(doc):
    res = []
    for m in SIG_RE.finditer(doc or ""):
        line = m.group(1).strip()
        optional = "[" in line
        line = line.replace("[", "").replace("]", "")
        i = line.rindex(")")
        depth = 0
        for j in range(i, -1, -1):
            if line[j] == ")":
                depth += 1
            elif line[j] == "(":
                depth -= 1
                if depth == 0:
                    break
        args = [a.split("=")[0].strip() for a in split_args(line[j + 1:i])]
        head = line[:j].strip()
        k = head.rindex(" ")
        res.append((head[:k].strip(), head[k + 1:], args, optional))
    return res


def strip_t(t):
    return t.replace("{lvalue}", "").replace("const", "").replace("&", "").strip()


SKIP_NAMES = {"__reduce__", "__getitem__", "__setitem__", "__len__", "__copy__", "__deepcopy__",
              "makeReadOnly", "writable", "__repr__", "__str__", "__getstate__", "__setstate__", "__reduce_ex__",
              "item", "size", "unmaskedLength", "isMaskedReference"}

SUFFIX = {"float": "f", "double": "d", "int": "i", "long": "i64", "short": "s", "unsigned char": "c"}
ARITH_INT = {"int", "short", "long", "signed char", "char"}
ARITH_UINT = {"unsigned char", "unsigned int", "unsigned short", "unsigned long"}
ARITH_FLT = {"float", "double"}


def array_class_map():
    m = {}
    for cn in dir(imath):
        c = getattr(imath, cn)
        if isinstance(c, type) and cn.endswith("Array") and hasattr(c, "__len__"):
            ov = overloads(getattr(c.__len__, "__doc__", ""))
            if ov:
                m[strip_t(ov[0][2][0])] = c
    return m


ARRAY_CLASS = array_class_map()


def parse_imath_type(t):
    """'Imath_3_2::Vec3<float>' -> ('Vec3', 'float');  Box<Vec3<float>> -> ('Box', ('Vec3','float'))"""
    m = re.match(r"Imath_\d+_\d+::(\w+)<\s*(.+?)\s*>$", t)
    if not m:
        return None
    inner = m.group(2)
    sub = parse_imath_type(inner)
    return (m.group(1), sub if sub else inner)


def scalar_class(t):
    p = parse_imath_type(t)
    if not p:
        return None
    kind, inner = p
    try:
        if kind in ("Vec2", "Vec3", "Vec4"):
            return getattr(imath, "V" + kind[3] + SUFFIX[inner])
        if kind in ("Color3", "Color4"):
            return getattr(imath, kind + SUFFIX[inner])
        if kind == "Quat":
            return getattr(imath, "Quat" + SUFFIX[inner])
        if kind in ("Matrix22", "Matrix33", "Matrix44"):
            return getattr(imath, "M" + kind[6:] + SUFFIX[inner])
        if kind == "Euler":
            return getattr(imath, "Euler" + SUFFIX[inner])
        if kind == "Box":
            return getattr(imath, "Box" + inner[0][3] + SUFFIX[inner[1]])
    except (KeyError, AttributeError):
        return None
    return None


# ------------------------------------------------------------------------------------------------
# value alphabets (deterministic functions of (position, argument index, slot); small dyadic values so
# float32 and float64 arithmetic on them is mostly exact and never overflows)
# ------------------------------------------------------------------------------------------------
def num(T, i, k, slot, nonzero):
    h = (i * 7 + k * 13 + slot * 5 + (i // 17) * 3) % 17
    if T in ARITH_FLT:
        v = (h - 8) * 0.25
        return (0.75 if v == 0 else v) if nonzero else v
    if T in ARITH_INT:
        v = h - 8
        return (3 if v == 0 else v) if nonzero else v
    if T in ARITH_UINT:
        return (h if h else 3) if nonzero else h
    if T == "bool":
        return bool(h & 1)
    raise KeyError(T)


MATRIX_VARIANT = None   # None: by position (arrays); 0/1/2: forced (scalar matrix arguments, see Bundle)


def make_scalar(t, i, k, nonzero=True):
    t = strip_t(t)
    if t in ARITH_FLT or t in ARITH_INT or t in ARITH_UINT or t == "bool":
        return num(t, i, k, 0, nonzero)
    p = parse_imath_type(t)
    cls = scalar_class(t)
    if not p or cls is None:
        raise KeyError(t)
    kind, inner = p
    if kind in ("Vec2", "Vec3", "Vec4", "Color3", "Color4"):
        n = int(kind[-1])
        vals = [num(inner, i, k, s, nonzero) for s in range(n)]   # nonzero: EVERY component (component-wise integer division)
        return cls(*vals)
    if kind == "Quat":
        vals = [num(inner, i, k, s, False) for s in range(4)]
        if not any(vals):
            vals[0] = 1.0
        return cls(*vals)
    if kind.startswith("Matrix"):
        n = int(kind[6])
        vals = []
        for r in range(n):
            for c in range(n):
                v = num(inner, i, k, r * n + c, False) * 0.25
                if r == c:
                    v += 2.0 + (i % 3)          # diagonally dominant => invertible, well conditioned
                vals.append(v)
        # last column: MATRIX_VARIANT 0 = affine (0,..,0,1); 1 = (0,..,0,4): no perspective terms but w != 1;
        # 2 = genuinely projective with w > 0 on the small operands used here. Arrays of matrices mix the three.
        mv = MATRIX_VARIANT if MATRIX_VARIANT is not None else i % 3
        if n == 4:
            col = ((0.0, 0.0, 0.0, 1.0), (0.0, 0.0, 0.0, 4.0), (0.03125, 0.0, -0.03125, 2.0))[mv]
            vals[3], vals[7], vals[11], vals[15] = col
        if n == 3:
            col = ((0.0, 0.0, 1.0), (0.0, 0.0, 4.0), (0.03125, -0.03125, 2.0))[mv]
            vals[2], vals[5], vals[8] = col
        return cls(*vals)
    if kind == "Euler":
        return cls(*[num(inner, i, k, s, False) * 0.5 for s in range(3)])
    if kind == "Box":
        vk, vin = inner
        n = int(vk[-1])
        vcls = scalar_class("Imath_3_2::%s<%s>" % (vk, vin))
        lo = [num(vin, i, k, s, False) for s in range(n)]
        hi = [a + abs(num(vin, i, k, s + 4, True)) for s, a in enumerate(lo)]
        if vin in ARITH_UINT:
            hi = [min(a, 200) for a in hi]
        return cls(vcls(*lo), vcls(*hi))
    raise KeyError(t)


def elem_type_of_array(t):
    m = re.match(r"PyImath::FixedArray<\s*(.+?)\s*>$", strip_t(t))
    return m.group(1) if m else None


def make_array(t, n, k, nonzero):
    et = elem_type_of_array(t)
    cls = ARRAY_CLASS[strip_t(t)]
    a = cls(n)
    for i in range(n):
        a[i] = make_scalar(et, i, k, nonzero)
    if k == 0 and not nonzero and n > 17:
        p = parse_imath_type(et)
        if p and (p[0].startswith("Vec") or p[0].startswith("Matrix")):
            z = scalar_class(et)
            nn = int(p[0][-1]) if p[0].startswith("Vec") else int(p[0][6]) ** 2
            a[17] = z(*([0] * nn))               # one exactly-zero / singular element: the checked (…Exc) forms raise there
    return a


# ------------------------------------------------------------------------------------------------
# canonical (bitwise) decomposition of results
# ------------------------------------------------------------------------------------------------
class CannotCanon(Exception):
    pass


def decomp(x, out):
    if x is None:
        return
    tx = type(x)
    if tx is float or tx is int or tx is bool:
        out.append(x); return
    if tx is str:
        out.append(x); return
    if tx is tuple or tx is list:
        out.append(len(x))
        for e in x:
            decomp(e, out)
        return
    name = tx.__name__
    f = DECOMP.get(name)
    if f is None:
        f = DECOMP[name] = make_decomp(name, x)
    f(x, out)


def make_decomp(name, x):
    if name.endswith("Array"):
        def f(a, out):
            d = verifdigest.digest(a)             # exact element bytes, read through the array's own operator[]
            if d is not None:
                out.append(d)
                return
            out.append(len(a))
            for i in range(len(a)):
                decomp(a[i], out)
        return f
    if re.match(r"(V[234]|Color[34])", name):
        n = len(x)
        return lambda v, out: out.extend([v[i] for i in range(n)])
    if name.startswith("Quat"):
        def f(q, out):
            v = q.v()
            out.extend([q.r(), v[0], v[1], v[2]])
        return f
    if re.match(r"M(22|33|44)", name):
        n = int(name[1])
        def f(m, out):
            for r in range(n):
                row = m[r]
                for c in range(n):
                    out.append(row[c])
        return f
    if name.startswith("Euler"):
        return lambda e, out: out.extend([e[0], e[1], e[2], str(e.order())])
    if name.startswith("Box"):
        def f(b, out):
            decomp(b.min(), out); decomp(b.max(), out)
        return f
    raise CannotCanon(name)


DECOMP = {}


def canon(*objs):
    out = []
    for o in objs:
        decomp(o, out)
    parts = []
    for v in out:
        if type(v) is bytes:
            parts.append(v)
        elif type(v) is float:
            parts.append(struct.pack("<d", v))
        elif type(v) is str:
            parts.append(v.encode())
        else:
            parts.append(b"i%d;" % int(v))
    return b"".join(parts)


# ------------------------------------------------------------------------------------------------
# entry points
# ------------------------------------------------------------------------------------------------
class Entry:
    __slots__ = ("owner", "name", "ret", "args", "idx")

    def __init__(self, owner, name, ret, args):
        self.owner, self.name, self.ret, self.args = owner, name, ret, args

    def label(self):
        return "%s%s(%s)" % (self.owner + "." if self.owner else "", self.name,
                             ",".join(short_t(a) for a in self.args))

    def fn(self):
        if self.name == "__init__":
            return getattr(imath, self.owner)
        return getattr(getattr(imath, self.owner), self.name) if self.owner else getattr(imath, self.name)


def short_t(t):
    t = t.replace("PyImath::FixedArray", "Arr").replace("Imath_3_2::", "").replace(" ", "")
    return t


def discover():
    eps, skipped = [], []
    seen = set()
    for cn in sorted(dir(imath)):
        c = getattr(imath, cn)
        items = []
        if isinstance(c, type):
            for an in sorted(dir(c)):
                if an in SKIP_NAMES:
                    continue
                a = c.__dict__.get(an)            # only what the class itself registers
                if a is None or not callable(a):
                    continue
                items.append((cn, an, getattr(a, "__doc__", None)))
        elif callable(c) and not cn.startswith("_"):
            items.append(("", cn, getattr(c, "__doc__", None)))
        for owner, an, doc in items:
            if not doc or "C++ signature" not in doc:
                continue
            for ret, _, args, optional in overloads(doc):
                if an == "__init__":
                    args = args[1:]               # (object self) — array constructors are called through the class
                    if len(args) == 1 and strip_t(args[0]) in ARRAY_CLASS and ARRAY_CLASS[strip_t(args[0])].__name__ == owner:
                        continue                   # copy constructor (shares storage; C19)
                if not any("FixedArray<" in t for t in args + [ret]):
                    continue
                if an.endswith("FromBuffer"):
                    continue                       # buffer constructors belong to C19
                key = (owner, an, ret, tuple(args))
                if key in seen:
                    continue
                seen.add(key)
                bad = [t for t in args if not synthesizable(t)]
                if bad:
                    skipped.append("%s%s: cannot synthesise argument type %s" % (owner + "." if owner else "", an, bad[0]))
                    continue
                eps.append(Entry(owner, an, ret, args))
    for i, e in enumerate(eps):
        e.idx = i
    return eps, skipped


def synthesizable(t):
    t = strip_t(t)
    if t in ARITH_FLT or t in ARITH_INT or t in ARITH_UINT or t == "bool":
        return True
    if t.startswith("PyImath::FixedArray<"):
        et = elem_type_of_array(t)
        return t in ARRAY_CLASS and synthesizable(et)
    return scalar_class(t) is not None


# ------------------------------------------------------------------------------------------------
# argument bundles
# ------------------------------------------------------------------------------------------------
PLAIN, MASKED, UNMASKED_LEN, MASKED_UNMASKED_LEN, ALIAS0 = "plain", "masked", "unmasked-length", "masked-with-unmasked-length", "same-object-as-first-argument"


def mask_for(n, m, blocky=False):
    """IntArray of length m selecting exactly n positions: in an irregular scattered pattern, or (blocky) as two
    CONTIGUOUS runs separated by a gap that falls on the cut n//2 of the schedule alphabets — so that a later sub-range
    sees a contiguous stretch of the mask whose offset differs from the first one's."""
    if blocky:
        h = n // 2
        chosen = list(range(3, 3 + h)) + list(range(3 + h + 7, 3 + h + 7 + (n - h)))
        ia = imath.IntArray(m)
        for j in chosen:
            ia[j] = 1
        return ia, chosen
    sel, i, step = [], 0, 0
    pos = [0] * m
    chosen = 0
    # irregular but deterministic: take positions by a stride pattern until n are chosen
    order = sorted(range(m), key=lambda j: ((j * 37) % m, j))
    for j in order[:n]:
        pos[j] = 1
    ia = imath.IntArray(m)
    for j in range(m):
        ia[j] = pos[j]
    return ia, [j for j in range(m) if pos[j]]


class Bundle:
    """Prototype arguments for one (entry, kinds, n); instantiate() gives fresh copies for one call."""

    def __init__(self, e, kinds, n, bad_len_arg=None, runs=False, mvar=0, blocky=False):
        self.e, self.kinds, self.n, self.runs, self.mvar = e, kinds, n, runs, mvar
        self.protos = []
        divlike = self.divlike = any(s in e.name for s in ("div", "mod", "Div", "Mod"))
        m = 2 * n + 3
        self.mask, self.sel = mask_for(n, m, blocky)
        ai = 0
        for k, t in enumerate(e.args):
            st = strip_t(t)
            if st.startswith("PyImath::FixedArray<"):
                kind = kinds[ai]
                ln = n + 1 if bad_len_arg == ai else n
                nonzero = (k > 0) or divlike
                if kind == MASKED:
                    if bad_len_arg == ai:
                        mk, sl = mask_for(ln, m)
                    else:
                        mk, sl = self.mask, self.sel
                    self.protos.append(("marr", make_array(st, m, k, nonzero), mk, sl))
                elif kind == ALIAS0:
                    self.protos.append(("alias0",))  # the very object passed as the first array argument (a.op(a), a += a)
                elif kind == UNMASKED_LEN:
                    self.protos.append(("arr", make_array(st, m, k, nonzero)))
                elif kind == MASKED_UNMASKED_LEN:
                    # a masked reference whose (masked) length equals the UNMASKED length of the masked self
                    m2 = 2 * m + 5
                    mk2, sl2 = mask_for(m, m2)
                    self.protos.append(("marr", make_array(st, m2, k, nonzero), mk2, sl2, "ulen"))
                else:
                    self.protos.append(("arr", make_array(st, ln, k, nonzero)))
                ai += 1
            else:
                self.protos.append(("scalar", self.scalar(st, 5, k), (st, 5, k)))
        self.first_array_index = next((i for i, p in enumerate(self.protos) if p[0] in ("arr", "marr")), 0)
        if runs:
            self.make_runs()

    def scalar(self, st, i, k):
        """a scalar (non-array) argument; matrices get this bundle's last-column variant"""
        global MATRIX_VARIANT
        MATRIX_VARIANT = self.mvar
        try:
            return make_scalar(st, i, k, True)
        finally:
            MATRIX_VARIANT = None

    def make_runs(self):
        """second data set: the element SEQUENCE every argument presents is constant on runs of five consecutive
        positions ((i+2)//5), placed so that a run straddles every cut of the alphabets (0|1, 103..107, 198..202,
        203..207) — an implementation that peeks at a neighbouring element (or at a neighbouring sub-range's output)
        is only visible when neighbours are equal."""
        for idx, p in enumerate(self.protos):
            k = idx
            if p[0] == "arr" and len(p[1]) == self.n:
                et = elem_type_of_array(self.e.args[k])
                for i in range(self.n):
                    p[1][i] = make_scalar(et, (i + 2) // 5, k, k > 0 or self.divlike)
            elif p[0] == "marr" and len(p) == 4:
                et = elem_type_of_array(self.e.args[k])
                for i, j in enumerate(p[3]):
                    p[1][j] = make_scalar(et, (i + 2) // 5, k, k > 0 or self.divlike)

    def instantiate(self):
        args, keep = [], []
        for p in self.protos:
            if p[0] == "alias0":
                args.append(args[self.first_array_index])
            elif p[0] == "arr":
                a = p[1][:]; args.append(a); keep.append(a)      # a[:] is a deep copy (the copy constructor shares storage)
            elif p[0] == "marr":
                b = p[1][:]; v = b[p[2]]; args.append(v); keep.append(b)
            else:
                s = p[1]
                if type(s) in (int, float, bool):
                    args.append(s)
                else:
                    s2 = self.scalar(*p[2]); args.append(s2); keep.append(s2)   # fresh object: scalars may be mutated ({lvalue})
        return args, keep

    def element_args(self, i):
        """arguments of the scalar binding for position i (None if an argument has no per-element meaning)"""
        out = []
        for p in self.protos:
            if p[0] == "alias0":
                p = self.protos[self.first_array_index]
            if p[0] == "arr":
                if len(p[1]) == self.n:
                    out.append(p[1][i])
                elif len(p[1]) == len(self.mask):
                    # right-hand side of the UNMASKED length next to a masked self: element at the raw index
                    out.append(p[1][self.sel[i]])
                else:
                    return None
            elif p[0] == "marr":
                if len(p) > 4:                     # masked right-hand side of the unmasked length: element at self's raw index
                    out.append(p[1][p[3][self.sel[i]]])
                else:
                    out.append(p[1][p[3][i]])
            else:
                out.append(p[1])
        return out


def array_arg_count(e):
    return sum(1 for t in e.args if strip_t(t).startswith("PyImath::FixedArray<"))


def kind_combos(e, quick):
    k = array_arg_count(e)
    if k == 0:
        return [()]
    if k <= 3:
        combos = list(itertools.product((PLAIN, MASKED), repeat=k))
    else:
        # many array arguments (matrix constructors take 9 / 16): deviation-bounded — all plain, exactly one
        # masked (each position), all masked, exactly one plain (each position)
        combos = [(PLAIN,) * k]
        combos += [tuple(MASKED if j == i else PLAIN for j in range(k)) for i in range(k)]
        combos += [tuple(PLAIN if j == i else MASKED for j in range(k)) for i in range(k)]
        combos += [(MASKED,) * k]
    # the second array argument is the SAME OBJECT as the first (a.op(a), a += a), when their types agree
    arr_types = [strip_t(t) for t in e.args if strip_t(t).startswith("PyImath::FixedArray<")]
    if k >= 2 and arr_types[0] == arr_types[1]:
        combos.append((PLAIN, ALIAS0) + (PLAIN,) * (k - 2))
        combos.append((MASKED, ALIAS0) + (PLAIN,) * (k - 2))
    # in-place member op with masked self and a right-hand side of the UNMASKED length (maskable member functions)
    if k >= 2 and e.owner and e.name.startswith("__i") and strip_t(e.args[0]).startswith("PyImath::FixedArray<"):
        combos.append((MASKED, UNMASKED_LEN) + (PLAIN,) * (k - 2))
        combos.append((MASKED, MASKED_UNMASKED_LEN) + (PLAIN,) * (k - 2))
    return combos


# ------------------------------------------------------------------------------------------------
# schedules
# ------------------------------------------------------------------------------------------------
def cut_alphabet(n, reduced=False):
    full = (1, 2, 199, 200, 201, n // 2, n - 2, n - 1)
    return sorted(set(c for c in ((1, 200, 201, n // 2, n - 1) if reduced else full) if 0 < c < n))


def schedules(n, max_cuts, workers_list, all_tid_maps, every_cut=False, reduced=False):
    """yield (workers, [(s,e,tid)...]) — all partitions by <= max_cuts cuts from the alphabet, all orders of the
    pieces, tid maps: for each workers() value w, piece->tid maps {all on 0, piece index mod w, reversed index mod w}
    or (all_tid_maps) every map into range(w)."""
    cuts = list(range(1, n)) if every_cut else cut_alphabet(n, reduced)
    for c in range(0, max_cuts + 1):
        for cs in itertools.combinations(cuts, c):
            b = [0] + list(cs) + [n]
            pieces = [(b[i], b[i + 1]) for i in range(len(b) - 1)]
            for perm in itertools.permutations(range(len(pieces))):
                for w in workers_list:
                    if all_tid_maps:
                        maps = itertools.product(range(w), repeat=len(pieces))
                    else:
                        maps = {tuple(0 for _ in pieces), tuple(i % w for i in range(len(pieces))),
                                tuple((len(pieces) - 1 - i) % w for i in range(len(pieces)))}
                        maps = sorted(maps)
                    for tm in maps:
                        yield w, [(pieces[p][0], pieces[p][1], tm[p]) for p in perm]


REDUCTIONS = {"bounds", "extendBy", "reduce", "min", "max", "computeBoundingBox", "intersects", "isVisible"}


# ------------------------------------------------------------------------------------------------
# running one entry point
# ------------------------------------------------------------------------------------------------
def run_call(fn, bundle):
    args, keep = bundle.instantiate()
    try:
        res = fn(*args)
        exc = None
    except Exception as ex:                     # noqa: BLE001 — the exception type is the observed outcome
        res, exc = None, type(ex).__name__
        bundle.last_message = str(ex)
    return res, exc, args, keep


def ulp_tol(et):
    return 2.0 ** -23 if ("float" in et and "double" not in et) else 2.0 ** -52


SCALAR_NAME = {"__iadd__": "__add__", "__isub__": "__sub__", "__imul__": "__mul__", "__idiv__": "__truediv__",
               "__itruediv__": "__truediv__", "__div__": "__truediv__", "__rdiv__": "__rtruediv__",
               "__imod__": "__mod__", "__ipow__": "__pow__"}


def flat(x):
    out = []
    decomp(x, out)
    return out


def clone(x):
    """independent copy of a scalar value (several classes have no usable copy constructor)"""
    if type(x) in (int, float, bool, str) or x is None:
        return x
    name = type(x).__name__
    if name.startswith("Box"):
        return type(x)(clone(x.min()), clone(x.max()))
    try:
        return type(x)(x)
    except Exception:                           # noqa: BLE001
        return type(x)(*flat(x))


def c_int_div(a, b):
    q = abs(a) // abs(b)
    return q if (a >= 0) == (b >= 0) else -q


REFLECT = {"__radd__": "__add__", "__rsub__": "__sub__", "__rmul__": "__mul__", "__rdiv__": "__truediv__",
           "__rtruediv__": "__truediv__"}


def builtin_model(name, ea, int_like):
    """definition of the operator on plain numbers (element types bool/int/float); None if not modelled"""
    a = ea[0]
    b = ea[1] if len(ea) > 1 else None
    if name in ("__add__", "__radd__"): return a + b
    if name == "__sub__": return a - b
    if name == "__rsub__": return b - a
    if name in ("__mul__", "__rmul__"): return a * b
    if name in ("__truediv__", "__div__"):
        return c_int_div(a, b) if int_like else a / b
    if name in ("__rtruediv__", "__rdiv__"):
        return c_int_div(b, a) if int_like else b / a
    if name == "__mod__" and int_like: return a - c_int_div(a, b) * b
    if name == "__neg__": return -a
    if name == "__eq__": return int(a == b)
    if name == "__ne__": return int(a != b)
    if name == "__lt__": return int(a < b)
    if name == "__le__": return int(a <= b)
    if name == "__gt__": return int(a > b)
    if name == "__ge__": return int(a >= b)
    if name == "__pow__" and not int_like: return float(a) ** b
    if name == "__rpow__" and not int_like: return float(b) ** a
    return None


def scalar_reference(e, bundle, i):
    """what the scalar binding gives for position i: (True, value) | (False, reason) | (None, reason) = skip position"""
    ea = bundle.element_args(i)
    if ea is None:
        return False, "argument without per-element meaning"
    name = SCALAR_NAME.get(e.name, e.name)
    # QuatArray.slerp is documented (and implemented) as "element-by-element SHORTEST ARC spherical linear
    # interpolation": its scalar counterpart is Quat.slerpShortestArc, not Quat.slerp.
    if e.name == "slerp" and e.owner.startswith("Quat"):
        name = "slerpShortestArc"
    if e.name in ("dot", "euclideanInnerProduct") and e.owner.startswith("Quat"):
        name = "__xor__"                         # Quat ^ Quat is the scalar binding of the Euclidean inner product
    if e.name == "ifelse":                       # a.ifelse(mask, other): definition
        return True, (ea[0] if ea[1] else ea[2])
    try:
        if e.owner:
            x = ea[0]
            if type(x) in (int, float, bool):
                et = elem_type_of_array(e.args[0]) or ""
                int_like = et not in ARITH_FLT
                try:
                    r = builtin_model(name, ea, int_like)
                except (ZeroDivisionError, OverflowError, ValueError):
                    return None, "model undefined here"
                if r is None:
                    return False, "python builtin scalar: operator %s not modelled" % name
                if isinstance(r, complex):
                    return None, "model undefined here"
                if et in ARITH_UINT or et in ARITH_INT:
                    bits = {"unsigned char": 8, "signed char": 8, "short": 16, "unsigned short": 16, "int": 32, "unsigned int": 32, "long": 64}.get(et, 32)
                    if name not in ("__eq__", "__ne__", "__lt__", "__le__", "__gt__", "__ge__"):
                        r = int(r) & ((1 << bits) - 1)
                        if et in ARITH_INT and r >= 1 << (bits - 1):
                            r -= 1 << bits
                return True, r
            x = clone(x)
            f = getattr(type(x), name, None)
            if f is None:
                return False, "no scalar method " + name
            r = f(x, *ea[1:])
            if r is NotImplemented and name in REFLECT and len(ea) == 2:
                r = getattr(type(ea[1]), REFLECT[name])(clone(ea[1]), x)
            if r is NotImplemented:
                return False, "scalar operator not implemented for these types"
            if name.startswith("__i") or r is None:
                r = x
            return True, r
        f = getattr(imath, name)
        return True, f(*ea)
    except (TypeError, AttributeError, NotImplementedError) as ex:
        return False, "scalar binding not callable: " + type(ex).__name__
    except Exception as ex:                     # noqa: BLE001 — the scalar form raises for this element (e.g. singular): skip the position
        return None, "scalar binding raised " + type(ex).__name__


def explore_entry(e, tier, deadline_at):
    """returns dict of counters + failures for one entry point"""
    res = {"label": e.label(), "calls": 0, "schedules": 0, "states": 0, "fails": [], "skipped": None, "classes": collections.Counter(),
           "outcomes": set(), "o3": 0, "o3_skip": None, "o2": 0, "o4": 0, "dispatched": 0}
    fn = e.fn()
    thorough = tier == "thorough"
    n = 208
    is_red = e.name in REDUCTIONS
    is_member_array = bool(e.owner) and e.owner.endswith("Array")
    out_et = elem_type_of_array(e.ret) or ""

    def fail(site, inp, exp, got):
        res["fails"].append((site, inp, exp, got))

    combos = kind_combos(e, not thorough)
    # data set 0: all elements different; data set 1 ("runs"): equal neighbours across every cut — for the all-plain and
    # the all-masked argument kinds (thorough: every kind)
    plan = [(kinds, False) for kinds in combos]
    plan += [(kinds, True) for kinds in (combos if thorough else [combos[0], tuple(MASKED for _ in combos[0])]) if kinds in combos]
    # a scalar Matrix33/44 argument (M.multVecMatrix(array), array * M ...): also with last column (0,..,0,4) and projective
    has_scalar_matrix = any(("Matrix33" in strip_t(t) or "Matrix44" in strip_t(t)) and not strip_t(t).startswith("PyImath::FixedArray<") for t in e.args)
    plan = [(kinds, runs, 0) for kinds, runs in plan]
    if has_scalar_matrix:
        plan += [(combos[0], False, 1), (combos[0], False, 2)]
    plan = [(kinds, runs, mvar, False) for kinds, runs, mvar in plan]
    # masked arguments whose mask is two contiguous runs with a gap (instead of the scattered pattern): all-masked, and the
    # masked-self / unmasked-length right-hand-side kinds of the in-place members
    plan += [(kinds, False, 0, True) for kinds in combos if kinds and kinds[0] == MASKED and (all(x == MASKED for x in kinds) or UNMASKED_LEN in kinds or MASKED_UNMASKED_LEN in kinds)]
    seen_plan = set()
    for kinds, runs, mvar, blocky in plan:
        if (kinds, runs, mvar, blocky) in seen_plan:
            continue
        seen_plan.add((kinds, runs, mvar, blocky))
        if time.time() > deadline_at:
            res["partial"] = True
            break
        try:
            bundle = Bundle(e, kinds, n, runs=runs, mvar=mvar, blocky=blocky)
        except Exception as ex:                 # noqa: BLE001
            res["skipped"] = "cannot build arguments (%s: %s)" % (type(ex).__name__, ex)
            return res
        kl = "/".join(kinds) + (" data=runs-of-5" if runs else "") + ("" if not mvar else " scalar-matrix-last-column-variant=%d" % mvar) + (" mask=two-contiguous-runs" if blocky else "")
        # ---- reference: no pool installed
        verifpool.uninstall()
        try:
            r0, x0, a0, k0 = run_call(fn, bundle)
            ref = canon(r0, a0, k0) if x0 is None else None
        except CannotCanon as ex:
            res["skipped"] = "cannot canonicalise %s" % ex
            return res
        if x0 == "ArgumentError":
            # Boost.Python refused this overload for these python types (another overload shadows it)
            res["classes"]["shadowed-or-refused"] += 1
            continue
        res["calls"] += 1
        res["outcomes"].add(x0 or "ok")
        res["classes"]["kinds:" + kl] += 1
        if x0:
            res["classes"]["reference-raises"] += 1
            # An exported array operation that can NEVER return — Boost.Python has no class registered for its C++ result
            # type — while the scalar binding of the same name returns a value for the elements: the array form does not
            # "produce at each element position what the scalar binding produces". Grouped by the missing result type.
            msg = getattr(bundle, "last_message", "")
            mm = re.search(r"No to_python \(by-value\) converter found for C\+\+ type: (.+)$", msg)
            if x0 == "TypeError" and mm and kinds == combos[0] and not runs and not mvar and not blocky:
                ok0, _ = scalar_reference(e, bundle, 0)
                if ok0:
                    fail("array-op-unusable.result-type-not-registered:" + mm.group(1).strip().replace("PyImath::", "").replace("Imath_3_2::", ""),
                         e.label(), "an array of per-element results", "TypeError: " + msg[:160])
        # determinism of the reference (uninitialised fields would make every later comparison meaningless)
        r0b, x0b, a0b, k0b = run_call(fn, bundle)
        if x0b != x0 or (x0 is None and canon(r0b, a0b, k0b) != ref):
            fail("nondeterministic-reference", e.label() + " kinds=" + kl, "same result twice", "differs")
            continue
        # ---- O3 scalar oracle (on the reference run; positions 0..n-1)
        if x0 is None and res["o3_skip"] is None and e.name != "__init__":
            target = None
            if r0 is not None and type(r0).__name__.endswith("Array") and len(r0) == n:
                target = r0
            elif is_member_array and e.name.startswith("__i"):
                target = a0[0]
            if target is not None:
                tol = ulp_tol(out_et or elem_type_of_array(e.args[0]) or "double")
                for i in range(n):
                    ok, sr = scalar_reference(e, bundle, i)
                    if ok is None:
                        res["o3_pos_skipped"] = res.get("o3_pos_skipped", 0) + 1
                        continue
                    if not ok:
                        res["o3_skip"] = sr
                        break
                    try:
                        got, want = flat(target[i]), flat(sr)
                    except CannotCanon:
                        res["o3_skip"] = "cannot canonicalise scalar result"
                        break
                    if len(got) != len(want):
                        res["o3_skip"] = "scalar binding returns a different shape"
                        break
                    ea = bundle.element_args(i)
                    mag = 1.0
                    for v in flat(ea):
                        if type(v) is float or type(v) is int:
                            mag = max(mag, abs(v))
                    for g, w in zip(got, want):
                        if type(g) is str or type(w) is str:
                            bad = g != w
                        elif isinstance(g, (int, bool)) and isinstance(w, (int, bool)):
                            bad = int(g) != int(w)
                        else:
                            g, w = float(g), float(w)
                            if math.isnan(g) or math.isnan(w):
                                bad = math.isnan(g) != math.isnan(w)
                            elif math.isinf(g) or math.isinf(w):
                                bad = g != w
                            else:
                                bad = abs(g - w) > 8 * tol * max(abs(w), mag * mag)
                        if bad:
                            fail("O3.scalar-mismatch:" + e.label(), "kinds=%s position=%d args=%r" % (kl, i, [repr(a) for a in ea]), repr(sr), repr(target[i]))
                            break
                    else:
                        res["o3"] += 1
                        continue
                    break
        # ---- O1: every schedule
        verifpool.install()
        max_cuts = 3 if thorough else 2
        if not thorough and kinds != combos[0] and kinds != combos[-1]:
            max_cuts = 1                         # quick: full cut depth for all-plain and last combo, 1 cut for the rest
        wl = (1, 2, 3) if (is_red or thorough) else (1, 3)
        seen_states = set()
        for w, script in schedules(n, max_cuts, wl, all_tid_maps=is_red, reduced=not thorough):
            if time.time() > deadline_at:
                res["partial"] = True
                break
            verifpool.set_workers(w)
            verifpool.set_script(script)
            verifpool.reset_stats()
            r1, x1, a1, k1 = run_call(fn, bundle)
            st = verifpool.stats()
            res["calls"] += 1
            res["schedules"] += 1
            if st[0]:
                res["dispatched"] += 1
            if st[3]:
                fail("harness.bad-script", e.label(), "valid script", str(script))
            if x1 != x0:
                fail("O1.outcome-differs:" + e.label(), "kinds=%s workers=%d script=%s" % (kl, w, script), x0 or "returns", x1 or "returns")
                continue
            if x0 is None:
                c1 = canon(r1, a1, k1)
                seen_states.add(c1)
                if c1 != ref:
                    fail("O1.result-depends-on-schedule:" + e.label(), "kinds=%s workers=%d script=%s" % (kl, w, script),
                         "bitwise equal to the run without a pool", first_diff(ref, c1))
        res["states"] += len(seen_states)
        # ---- O1 at the dispatch threshold (thorough, all-plain arguments): n = 201 with EVERY single cut 1..200 in both
        # orders; n = 200 and 199 must give the same result with a pool installed (the pool may or may not be entered)
        if thorough and kinds == combos[0] and not runs and x0 is None and time.time() < deadline_at:
            for n2, every in ((201, True), (200, False), (199, False)):
                try:
                    b2 = Bundle(e, kinds, n2)
                except Exception:               # noqa: BLE001
                    break
                verifpool.uninstall()
                rr, xr, ar, kr = run_call(fn, b2)
                if xr is not None:
                    continue
                refn = canon(rr, ar, kr)
                verifpool.install()
                for w, script in schedules(n2, 1, (2,), all_tid_maps=False, every_cut=every, reduced=True):
                    verifpool.set_workers(w); verifpool.set_script(script); verifpool.reset_stats()
                    r1, x1, a1, k1 = run_call(fn, b2)
                    res["calls"] += 1; res["schedules"] += 1
                    if verifpool.stats()[3]:
                        continue                  # script does not fit (cannot happen: pieces are within [0,n2))
                    if x1 is not None or canon(r1, a1, k1) != refn:
                        fail("O1.result-depends-on-schedule(n=%d):" % n2 + e.label(), "kinds=%s workers=%d script=%s" % (kl, w, script),
                             "bitwise equal to the run without a pool", x1 or "different bytes")
                res["classes"]["threshold-n=%d" % n2] += 1
            verifpool.install()
        # ---- O2: footprint of single pieces (in-place outputs and pure inputs)
        if x0 is None:
            verifpool.set_workers(3)
            cuts = [0] + cut_alphabet(n) + [n]
            pieces = sorted(set((cuts[i], cuts[j]) for i in range(len(cuts)) for j in range(i + 1, len(cuts))))
            if not thorough:
                pieces = [p for p in pieces if p[0] in (0, 1, 104, 200) or p[1] in (n, 201)]
            pre = bundle.instantiate()
            pre_c = [flat_list(x) for x in pre[0]]
            full_c = [flat_list(x) for x in a0]
            res_full = flat_list(r0) if (r0 is not None and type(r0).__name__.endswith("Array") and len(r0) == n) else None
            for (s, t) in pieces:
                if is_red:
                    break
                verifpool.set_script([(s, t, 1)])
                verifpool.reset_stats()
                r2, x2, a2, k2 = run_call(fn, bundle)
                res["calls"] += 1
                if verifpool.stats()[0] == 0:
                    break                          # this entry point does not dispatch: nothing to learn from pieces
                if x2 is not None:
                    break
                res["o2"] += 1
                for ai, (ar_pre, ar_full, ar_now) in enumerate(zip(pre_c, full_c, [flat_list(x) for x in a2])):
                    if ar_pre is None or len(ar_pre) != n:
                        continue
                    for i in range(n):
                        want = ar_full[i] if s <= i < t else ar_pre[i]
                        if ar_now[i] != want:
                            fail("O2.footprint:" + e.label(), "kinds=%s piece=[%d,%d) arg=%d position=%d" % (kl, s, t, ai, i),
                                 repr(want), repr(ar_now[i]))
                            break
                if res_full is not None and r2 is not None and len(r2) == n:
                    now = flat_list(r2)
                    for i in range(s, t):
                        if now[i] != res_full[i]:
                            fail("O2.piece-result:" + e.label(), "kinds=%s piece=[%d,%d) position=%d" % (kl, s, t, i), repr(res_full[i]), repr(now[i]))
                            break
        verifpool.uninstall()
        # ---- O4: mismatched lengths raise
        k = array_arg_count(e)
        if k >= 2 and kinds == combos[0] and not runs:
            for bad in range(1, k):
                try:
                    b2 = Bundle(e, kinds, n, bad_len_arg=bad)
                except Exception:               # noqa: BLE001
                    continue
                r3, x3, a3, k3 = run_call(fn, b2)
                res["calls"] += 1
                res["o4"] += 1
                if x3 is None:
                    res["classes"]["mismatch-accepted"] += 1
                    res.setdefault("mismatch_accepted", []).append(bad)
                else:
                    res["classes"]["mismatch-raises"] += 1
    res["outcomes"] = sorted(res["outcomes"])
    res["classes"] = dict(res["classes"])
    return res


def flat_list(x):
    """per-position canonical values for an array-like (None if x is not an array)"""
    if x is None or not type(x).__name__.endswith("Array"):
        return None
    n = len(x)
    d = verifdigest.digest(x)
    if d is not None and n:
        sz = (len(d) - 8) // n
        return [d[8 + i * sz: 8 + (i + 1) * sz] for i in range(n)]
    out = []
    for i in range(n):
        o = []
        decomp(x[i], o)
        out.append(tuple(o))
    return out


def first_diff(a, b):
    for i, (x, y) in enumerate(zip(a, b)):
        if x != y:
            return "differs from byte %d of %d/%d" % (i, len(a), len(b))
    return "lengths %d/%d" % (len(a), len(b))


# ------------------------------------------------------------------------------------------------
# worker processes (a crash inside the library is an observed outcome, not a harness death)
# ------------------------------------------------------------------------------------------------
def worker(indices, eps, tier, deadline_at, path):
    with open(path, "a") as f:
        for idx in indices:
            f.write("START %d\n" % idx); f.flush()
            try:
                t_e = time.time()
                r = explore_entry(eps[idx], tier, deadline_at)
                r["secs"] = round(time.time() - t_e, 2)
            except Exception as ex:             # noqa: BLE001 — harness bug: report as skipped with the trace, never as a violation
                r = {"label": eps[idx].label(), "skipped": "harness exception: %s" % traceback.format_exc(limit=3), "calls": 0,
                     "schedules": 0, "states": 0, "fails": [], "classes": {}, "outcomes": [], "o3": 0, "o3_skip": None, "o2": 0, "o4": 0,
                     "dispatched": 0, "harness_error": True}
            f.write("DONE %d %s\n" % (idx, json.dumps(r))); f.flush()
    os._exit(0)


def run_sharded(eps, todo, tier, deadline_at, tmpdir):
    results, crashed = {}, []
    pending = list(todo)
    rnd = 0
    while pending:
        rnd += 1
        shards = [pending[i::NPROC] for i in range(NPROC)]
        procs = []
        for k, sh in enumerate(shards):
            if not sh:
                continue
            path = os.path.join(tmpdir, "c20-r%d-w%d.jsonl" % (rnd, k))
            if os.path.exists(path):
                os.remove(path)
            pid = os.fork()
            if pid == 0:
                worker(sh, eps, tier, deadline_at, path)
            procs.append((pid, sh, path))
        pending = []
        for pid, sh, path in procs:
            _, status = os.waitpid(pid, 0)
            started, done = None, set()
            if os.path.exists(path):
                for line in open(path):
                    if line.startswith("START "):
                        started = int(line.split()[1])
                    elif line.startswith("DONE "):
                        _, i, js = line.split(" ", 2)
                        results[int(i)] = json.loads(js); done.add(int(i))
            if status != 0:
                if started is not None and started not in done:
                    crashed.append((started, status))
                    done.add(started)
                pending += [i for i in sh if i not in done]
    return results, crashed


def main():
    tmpdir = os.environ.get("VERIF_PYBUILD", "/tmp")
    t_dead = R.t0 + R.deadline
    eps, skipped = discover()
    R.note("entry_points_discovered", len(eps))
    R.note("entry_points_unsynthesisable", len(skipped))
    R.declare("kinds:plain", "kinds:masked", "dispatched-through-pool", "reference-raises", "mismatch-raises",
              "o3-scalar-compared", "o2-footprint-pieces")
    todo = list(range(len(eps)))
    only = os.environ.get("C20_ONLY")
    if only:
        todo = [i for i in todo if re.search(only, eps[i].label())]
    # decomposition self-check: one-ulp changes must change the canonical form
    if R.stage("canon-selfcheck"):
        a = imath.V3fArray(3); b = imath.V3fArray(3)
        a[1] = imath.V3f(1, 2, 3); b[1] = imath.V3f(1, 2, 3.0000002384185791)
        if canon(a) == canon(b) or canon(0.0) == canon(-0.0):
            R.fail("harness.canon-not-bitwise", "V3fArray one-ulp / signed zero", "different", "equal")
        for cls in ARRAY_CLASS.values():          # a[:] must be an independent deep copy for every array class
            try:
                et = [k for k, v in ARRAY_CLASS.items() if v is cls][0]
                if not synthesizable(et):
                    continue
                p = make_array(et, 4, 0, True); before = canon(p)
                q = p[:]; q[1] = make_scalar(elem_type_of_array(et), 9, 3, True)
                if canon(p) != before:
                    R.fail("harness.slice-copy-shares-storage", cls.__name__, "independent copy", "shared")
            except KeyError:
                pass
        R.stage_done("canonical form separates 1-ulp and signed-zero differences")
    if R.stage("schedule-exploration"):
        results, crashed = run_sharded(eps, todo, R.tier, t_dead, tmpdir)
        partial = False
        o3_skips = collections.Counter()
        skipped_entries = list(skipped)
        for idx in sorted(results):
            r = results[idx]
            if r.get("harness_error"):
                R.fail("harness.exception", r["label"], "", r["skipped"][-400:])
            if r.get("skipped"):
                skipped_entries.append(r["label"] + ": " + r["skipped"])
                continue
            partial = partial or r.get("partial", False)
            R.add("evaluations", r["calls"])
            R.add("transitions", r["calls"])
            R.add("states", r["schedules"])
            R.add("traces", r["schedules"])
            R.add("entry_points_explored", 1)
            R.add("distinct_result_states", r["states"])
            if r["dispatched"]:
                R.cls("dispatched-through-pool", 1)
            for k, v in r["classes"].items():
                kk = k
                if k.startswith("kinds:"):
                    if "runs-of-5" in k:
                        R.cls("data:equal-neighbours-across-every-cut", v)
                    kk = "kinds:masked" if "masked" in k else "kinds:plain"
                R.cls(kk, v)
            R.cls("o3-scalar-compared", 1 if r["o3"] else 0)
            R.cls("o2-footprint-pieces", r["o2"])
            R.add("o3_positions_compared", r["o3"])
            R.add("o4_mismatched_length_calls", r["o4"])
            if r["o3_skip"]:
                o3_skips[r["o3_skip"]] += 1
            for bad in r.get("mismatch_accepted", []):
                R.fail("O4.mismatched-length-accepted:" + r["label"], "array argument %d one element longer than the others (n=208/209)" % bad, "exception", "returned normally")
            for site, inp, exp, got in r["fails"]:
                R.fail(site, inp, exp, got)
        for idx, status in crashed:
            sig = status & 0x7f
            R.fail("crash:" + eps[idx].label(), "process died while exploring this entry point", "no crash", "signal %d / status %d" % (sig, status))
        R.note("o3_not_applied_reasons", json.dumps(dict(o3_skips)))
        R.note("entry_points_skipped", json.dumps(skipped_entries[:400]))
        R.add("entry_points_skipped", len(skipped_entries))
        for r in list(results.values())[:6]:
            R.sample("%s: %d schedules, outcomes=%s" % (r["label"], r.get("schedules", 0), r.get("outcomes")))
        R.sample("schedule example: workers=3 script=[(104,208,1),(0,1,0),(1,104,2)] (start,end,tid in execution order)")
        if partial or len(results) + len(crashed) < len(todo):
            R.stage_partial("%d of %d entry points finished before the deadline" % (len(results), len(todo)))
        else:
            R.stage_done("%d entry points x plain/masked argument kinds x all partitions by <=%d cuts from %s x all piece orders x tid maps"
                         % (len(results), 3 if R.thorough() else 2, cut_alphabet(208, not R.thorough())))
    return R.finish()


if __name__ == "__main__":
    sys.exit(main())
