// verifpool — a scripted PyImath::WorkerPool installed through the public seam
// WorkerPool::setCurrentPool(). The harness owns every scheduling decision:
//   * sequential mode: dispatch() executes exactly the scripted pieces (start,end,tid) in the
//     scripted order on the calling thread. Task bodies contain no synchronisation, so every
//     interleaving of k workers with p pre-emptions at element granularity is one
//     (partition, order, tid-map); enumerating those enumerates the interleavings.
//   * threads mode: every piece runs on its own std::thread, all released together from a
//     barrier (free-running pass for the race detector; no scheduler-made happens-before edges
//     between pieces other than thread create/join).
// With an empty script the pool behaves like the trivial pool (one piece [0,length), tid 0).
#define PY_SSIZE_T_CLEAN
#include <Python.h>
#include <PyImathTask.h>
#include <atomic>
#include <exception>
#include <thread>
#include <vector>

namespace {

struct Piece { size_t s, e; int tid; };

static thread_local bool tl_in_worker = false;

class ScriptedPool : public PyImath::WorkerPool
{
  public:
    size_t             nworkers = 1;
    std::vector<Piece> script;
    int                mode = 0;
    long               dispatches = 0, pieces_run = 0, bad_script = 0;
    size_t             last_len = 0;

    size_t workers () const override { return nworkers; }
    bool   inWorkerThread () const override { return tl_in_worker; }

    void dispatch (PyImath::Task& task, size_t length) override
    {
        ++dispatches;
        last_len = length;
        if (script.empty ())
        {
            tl_in_worker = true;
            try { task.execute (0, length, 0); } catch (...) { tl_in_worker = false; throw; }
            tl_in_worker = false;
            ++pieces_run;
            return;
        }
        for (auto& p : script)
            if (p.e > length || p.s > p.e || p.tid < 0 || (size_t) p.tid >= nworkers) { ++bad_script; return; }
        if (mode == 0)
        {
            for (auto& p : script)
            {
                tl_in_worker = true;
                try { task.execute (p.s, p.e, p.tid); } catch (...) { tl_in_worker = false; throw; }
                tl_in_worker = false;
                ++pieces_run;
            }
            return;
        }
        // threads mode
        std::atomic<int>                ready (0);
        std::atomic<bool>               go (false);
        std::vector<std::exception_ptr> errs (script.size ());
        std::vector<std::thread>        th;
        const int                       n = (int) script.size ();
        for (int i = 0; i < n; ++i)
            th.emplace_back ([&, i] () {
                tl_in_worker = true;
                ++ready;
                while (!go.load (std::memory_order_acquire)) std::this_thread::yield ();
                try { task.execute (script[i].s, script[i].e, script[i].tid); }
                catch (...) { errs[i] = std::current_exception (); }
            });
        while (ready.load () < n) std::this_thread::yield ();
        go.store (true, std::memory_order_release);
        for (auto& t : th) t.join ();
        pieces_run += n;
        for (auto& e : errs)
            if (e) std::rethrow_exception (e);
    }
};

ScriptedPool         g_pool;
PyImath::WorkerPool* g_prev = nullptr;
bool                 g_installed = false;

PyObject* py_install (PyObject*, PyObject*)
{
    if (!g_installed)
    {
        g_prev = PyImath::WorkerPool::currentPool ();
        PyImath::WorkerPool::setCurrentPool (&g_pool);
        g_installed = true;
    }
    Py_RETURN_NONE;
}
PyObject* py_uninstall (PyObject*, PyObject*)
{
    if (g_installed)
    {
        PyImath::WorkerPool::setCurrentPool (g_prev);
        g_installed = false;
    }
    Py_RETURN_NONE;
}
PyObject* py_set_workers (PyObject*, PyObject* args)
{
    long n;
    if (!PyArg_ParseTuple (args, "l", &n)) return nullptr;
    g_pool.nworkers = n < 1 ? 1 : (size_t) n;
    Py_RETURN_NONE;
}
PyObject* py_set_mode (PyObject*, PyObject* args)
{
    int m;
    if (!PyArg_ParseTuple (args, "i", &m)) return nullptr;
    g_pool.mode = m;
    Py_RETURN_NONE;
}
PyObject* py_set_script (PyObject*, PyObject* args)
{
    PyObject* seq;
    if (!PyArg_ParseTuple (args, "O", &seq)) return nullptr;
    PyObject* fast = PySequence_Fast (seq, "script must be a sequence of (start,end,tid)");
    if (!fast) return nullptr;
    std::vector<Piece> s;
    Py_ssize_t         n = PySequence_Fast_GET_SIZE (fast);
    for (Py_ssize_t i = 0; i < n; ++i)
    {
        long a, b, t;
        if (!PyArg_ParseTuple (PySequence_Fast_GET_ITEM (fast, i), "lll", &a, &b, &t)) { Py_DECREF (fast); return nullptr; }
        s.push_back ({(size_t) a, (size_t) b, (int) t});
    }
    Py_DECREF (fast);
    g_pool.script.swap (s);
    Py_RETURN_NONE;
}
PyObject* py_stats (PyObject*, PyObject*)
{
    return Py_BuildValue ("(llll)", g_pool.dispatches, (long) g_pool.last_len, g_pool.pieces_run, g_pool.bad_script);
}
PyObject* py_reset_stats (PyObject*, PyObject*)
{
    g_pool.dispatches = g_pool.pieces_run = g_pool.bad_script = 0;
    g_pool.last_len = 0;
    Py_RETURN_NONE;
}
PyObject* py_library_workers (PyObject*, PyObject*)
{
    return PyLong_FromSize_t (PyImath::workers ());
}

PyMethodDef methods[] = {
    {"install", py_install, METH_NOARGS, "install the scripted pool"},
    {"uninstall", py_uninstall, METH_NOARGS, "restore the previous pool"},
    {"set_workers", py_set_workers, METH_VARARGS, "workers() value"},
    {"set_mode", py_set_mode, METH_VARARGS, "0 sequential scripted, 1 one std::thread per piece"},
    {"set_script", py_set_script, METH_VARARGS, "[(start,end,tid),...] in execution order; [] = single piece"},
    {"stats", py_stats, METH_NOARGS, "(dispatches,last_length,pieces_run,bad_script)"},
    {"reset_stats", py_reset_stats, METH_NOARGS, ""},
    {"library_workers", py_library_workers, METH_NOARGS, "PyImath::workers()"},
    {nullptr, nullptr, 0, nullptr}};

PyModuleDef moddef = {PyModuleDef_HEAD_INIT, "verifpool", "scripted WorkerPool", -1, methods};

} // namespace

PyMODINIT_FUNC PyInit_verifpool (void) { return PyModule_Create (&moddef); }
