// Reference functions for the scalar Matrix22/33/44 bindings, written against ImathMatrix.h / ImathMatrixAlgo.h.
// Instantiated by verifref_m22.cpp, verifref_m33.cpp, verifref_m44f.cpp, verifref_m44d.cpp.
#ifndef VERIFREF_MATRIX_HPP
#define VERIFREF_MATRIX_HPP
#include "verifref_common.hpp"

namespace vr {

template <class M> struct mrebind;
template <class T> struct mrebind<Matrix22<T>> { template <class S> using to = Matrix22<S>; enum { n = 2 }; };
template <class T> struct mrebind<Matrix33<T>> { template <class S> using to = Matrix33<S>; enum { n = 3 }; };
template <class T> struct mrebind<Matrix44<T>> { template <class S> using to = Matrix44<S>; enum { n = 4 }; };

template <class M> M from_rows (const bp::tuple* rows)
{
    typedef typename M::BaseType T;
    enum { N = mrebind<M>::n };
    M m;
    for (int r = 0; r < N; ++r)
    {
        if (seqlen (rows[r]) != N) throw std::domain_error ("matrix takes N tuples of length N");
        for (int c = 0; c < N; ++c) m[r][c] = num<T> (rows[r][c]);
    }
    return m;
}

// ---- what all three dimensions share
template <class M> void matrix_common (const Reg& D)
{
    typedef typename M::BaseType T;
    typedef typename mrebind<M>::template to<float> MF;
    typedef typename mrebind<M>::template to<double> MD;
    enum { N = mrebind<M>::n };
    D ("__init__", +[] (const M& a) { return M (a); });
    D ("__init__", +[] () { return M (); });                                  // "initialize to identity"
    D ("__init__", +[] (T a) { return M (a); });                              // "initialize all entries to a single value"
    D ("__init__", +[] (const MD& a) { return M (a); });
    D ("__init__", +[] (const MF& a) { return M (a); });
    D ("__copy__", +[] (const M& a) { return M (a); });
    D ("__deepcopy__", +[] (const M& a, bp::dict&) { return M (a); });
    D ("__len__", +[] (const M&) { return long (N); });
    // m[i]: row i (python index contract); the driver reads the returned row proxy element by element
    D ("__getitem__", +[] (M& a, long i) {
        int r = int (pyindex (i, N));
        bp::list l;
        for (int c = 0; c < N; ++c) l.append (a[r][c]);
        return bp::tuple (l);
    });
    D ("baseTypeEpsilon", +[] () { return M::baseTypeEpsilon (); });
    D ("baseTypeMax", +[] () { return M::baseTypeMax (); });
    D ("baseTypeLowest", +[] () { return M::baseTypeLowest (); });
    D ("baseTypeSmallest", +[] () { return M::baseTypeSmallest (); });
    D ("equalWithAbsError", +[] (M& a, const M& b, T e) { return a.equalWithAbsError (b, e); });
    D ("equalWithRelError", +[] (M& a, const M& b, T e) { return a.equalWithRelError (b, e); });
    D ("makeIdentity", +[] (M& a) { a.makeIdentity (); });
    D ("transpose", +[] (M& a) { return M (a.transpose ()); });
    D ("transposed", +[] (M& a) { return a.transposed (); });
    D ("determinant", +[] (M& a) { return a.determinant (); });
    // the python signatures declare singExc = True as the default of the one-argument forms
    D ("invert", +[] (M& a) { return M (a.invert (true)); });
    D ("invert", +[] (M& a, bool e) { return M (a.invert (e)); });
    D ("inverse", +[] (M& a) { return a.inverse (true); });
    D ("inverse", +[] (M& a, bool e) { return a.inverse (e); });
    D ("__eq__", +[] (M& a, const M& b) { return a == b; });
    D ("__ne__", +[] (M& a, const M& b) { return a != b; });
    D ("__iadd__", +[] (M& a, const MF& b) { return M (a += M (b)); });
    D ("__iadd__", +[] (M& a, const MD& b) { return M (a += M (b)); });
    D ("__iadd__", +[] (M& a, T t) { return M (a += t); });
    D ("__isub__", +[] (M& a, const MF& b) { return M (a -= M (b)); });
    D ("__isub__", +[] (M& a, const MD& b) { return M (a -= M (b)); });
    D ("__isub__", +[] (M& a, T t) { return M (a -= t); });
    D ("__add__", +[] (M& a, const M& b) { return a + b; });
    D ("__sub__", +[] (M& a, const M& b) { return a - b; });
    // matrix (+|-) number: every entry (the library has the in-place forms operator+=(T), operator-=(T))
    D ("__add__", +[] (M& a, T t) { M r (a); r += t; return r; });
    D ("__radd__", +[] (M& a, T t) { M r (a); r += t; return r; });
    D ("__sub__", +[] (M& a, T t) { M r (a); r -= t; return r; });
    D ("__rsub__", +[] (M& a, T t) {
        M r;
        for (int i = 0; i < N; ++i)
            for (int j = 0; j < N; ++j) r[i][j] = t - a[i][j];
        return r;
    });
    D ("negate", +[] (M& a) { return M (a.negate ()); });
    D ("__neg__", +[] (M& a) { return -a; });
    D ("__imul__", +[] (M& a, T t) { return M (a *= t); });
    D ("__mul__", +[] (M& a, T t) { return a * t; });
    D ("__rmul__", +[] (M& a, T t) { return t * a; });
    D ("__idiv__", +[] (M& a, T t) { return M (a /= t); });
    D ("__itruediv__", +[] (M& a, T t) { return M (a /= t); });
    D ("__div__", +[] (M& a, T t) { return a / t; });
    D ("__truediv__", +[] (M& a, T t) { return a / t; });
    D ("__mul__", +[] (M& a, MF& b) { return a * M (b); });
    D ("__mul__", +[] (M& a, MD& b) { return a * M (b); });
    D ("__rmul__", +[] (M& a, MF& b) { return M (b) * a; });
    D ("__rmul__", +[] (M& a, MD& b) { return M (b) * a; });
    D ("__imul__", +[] (M& a, MF& b) { return M (a *= M (b)); });
    D ("__imul__", +[] (M& a, MD& b) { return M (a *= M (b)); });
    D ("setValue", +[] (M& a, const M& b) { a.setValue (b); });
}

template <class M, class S> void matrix_mult_dir (const Reg& D)
{
    enum { N = mrebind<M>::n };
    typedef typename std::conditional<N == 4, Vec3<S>, Vec2<S>>::type V;
    D ("multDirMatrix", +[] (M& m, const V& src, V& dst) { m.multDirMatrix (src, dst); });
    D ("multDirMatrix", +[] (M& m, const V& src) { V dst; m.multDirMatrix (src, dst); return dst; });
}
template <class M, class S> void matrix_mult_vec (const Reg& D)
{
    enum { N = mrebind<M>::n };
    typedef typename std::conditional<N == 4, Vec3<S>, Vec2<S>>::type V;
    D ("multVecMatrix", +[] (M& m, const V& src, V& dst) { m.multVecMatrix (src, dst); });
    D ("multVecMatrix", +[] (M& m, const V& src) { V dst; m.multVecMatrix (src, dst); return dst; });
}

// ---- 3x3 and 4x4: Gauss-Jordan inverse, minors, decomposition (ImathMatrixAlgo.h), SVD / eigen solver
template <class M, class V> void matrix_affine (const Reg& D)      // V = Vec2 for M33, Vec3 for M44
{
    typedef typename M::BaseType T;
    typedef typename M::BaseVecType BV;
    D ("gjInvert", +[] (M& a) { return M (a.gjInvert (true)); });
    D ("gjInvert", +[] (M& a, bool e) { return M (a.gjInvert (e)); });
    D ("gjInverse", +[] (M& a) { return a.gjInverse (true); });
    D ("gjInverse", +[] (M& a, bool e) { return a.gjInverse (e); });
    D ("minorOf", +[] (M& a, int r, int c) { return a.minorOf (r, c); });
    D ("translation", +[] (M& a) { return a.translation (); });
    D ("setTranslation", +[] (M& a, const V& t) { return M (a.setTranslation (t)); });
    D ("setTranslation", +[] (M& a, const bp::tuple& t) { return M (a.setTranslation (from_seq<V> (t))); });
    D ("setTranslation", +[] (M& a, const bp::object& t) { return M (a.setTranslation (vec_arg<V> (t))); });
    D ("translate", +[] (M& a, const bp::object& t) { return M (a.translate (vec_arg<V> (t))); });
    D ("translate", +[] (M& a, const bp::tuple& t) { return M (a.translate (from_seq<V> (t))); });
    D ("scale", +[] (M& a, T s) { return M (a.scale (V (s))); });
    D ("scale", +[] (M& a, const V& s) { return M (a.scale (s)); });
    D ("scale", +[] (M& a, const bp::tuple& s) { return M (a.scale (from_seq<V> (s))); });
    D ("setScale", +[] (M& a, T s) { return M (a.setScale (s)); });
    D ("setScale", +[] (M& a, const V& s) { return M (a.setScale (s)); });
    D ("setScale", +[] (M& a, const bp::tuple& s) { return M (a.setScale (from_seq<V> (s))); });
    D ("removeScaling", +[] (M& a) { return int (IMATH_NAMESPACE::removeScaling (a, true)); });
    D ("removeScaling", +[] (M& a, int exc) { return int (IMATH_NAMESPACE::removeScaling (a, exc)); });
    D ("removeScalingAndShear", +[] (M& a) { return int (IMATH_NAMESPACE::removeScalingAndShear (a, true)); });
    D ("removeScalingAndShear", +[] (M& a, int exc) { return int (IMATH_NAMESPACE::removeScalingAndShear (a, exc)); });
    D ("sansScaling", +[] (const M& a) { return IMATH_NAMESPACE::sansScaling (a, true); });
    D ("sansScaling", +[] (const M& a, bool exc) { return IMATH_NAMESPACE::sansScaling (a, exc); });
    D ("sansScalingAndShear", +[] (const M& a) { return IMATH_NAMESPACE::sansScalingAndShear (a, true); });
    D ("sansScalingAndShear", +[] (const M& a, bool exc) { return IMATH_NAMESPACE::sansScalingAndShear (a, exc); });
    D ("extractScaling", +[] (M& a, V& s) { IMATH_NAMESPACE::extractScaling (a, s, true); });
    D ("extractScaling", +[] (M& a, V& s, int exc) { IMATH_NAMESPACE::extractScaling (a, s, exc); });
    D ("singularValueDecomposition", +[] (const M& a, bool forcePositiveDeterminant) {
        M U, W;
        BV S;
        IMATH_NAMESPACE::jacobiSVD (a, U, S, W, std::numeric_limits<T>::epsilon (), forcePositiveDeterminant);
        return bp::make_tuple (U, S, W);
    });
    // documented: the matrix must be symmetric (the driver only passes symmetric ones to the reference)
    D ("symmetricEigensolve", +[] (const M& a) {
        M A (a), Q;
        BV S;
        IMATH_NAMESPACE::jacobiEigenSolver (A, S, Q);
        return bp::make_tuple (Q, S);
    });
    matrix_mult_dir<M, float> (D);
    matrix_mult_dir<M, double> (D);
    matrix_mult_vec<M, float> (D);
    matrix_mult_vec<M, double> (D);
}

template <class T> void m22_refs (const char* cls)
{
    typedef Matrix22<T> M;
    typedef Vec2<T> V;
    Reg D (cls);
    matrix_common<M> (D);
    D ("__init__", +[] (T a, T b, T c, T d) { return M (a, b, c, d); });
    D ("__init__", +[] (const bp::tuple& r0, const bp::tuple& r1) { bp::tuple r[2] = { r0, r1 }; return from_rows<M> (r); });
    D ("extractEuler", +[] (M& m, V& dst) { T r; IMATH_NAMESPACE::extractEuler (m, r); dst.setValue (r, T (0)); });
    D ("rotate", +[] (M& m, T r) { return M (m.rotate (r)); });
    D ("setRotation", +[] (M& m, T r) { return M (m.setRotation (r)); });
    D ("scale", +[] (M& a, T s) { return M (a.scale (V (s))); });
    D ("scale", +[] (M& a, const V& s) { return M (a.scale (s)); });
    D ("scale", +[] (M& a, const bp::tuple& s) { return M (a.scale (from_seq<V> (s))); });
    D ("setScale", +[] (M& a, T s) { return M (a.setScale (s)); });
    D ("setScale", +[] (M& a, const V& s) { return M (a.setScale (s)); });
    D ("setScale", +[] (M& a, const bp::tuple& s) { return M (a.setScale (from_seq<V> (s))); });
    matrix_mult_dir<M, float> (D);
    matrix_mult_dir<M, double> (D);
}

template <class T> void m33_refs (const char* cls)
{
    typedef Matrix33<T> M;
    typedef Vec2<T> V;
    Reg D (cls);
    matrix_common<M> (D);
    matrix_affine<M, V> (D);
    D ("__init__", +[] (T a, T b, T c, T d, T e, T f, T g, T h, T i) { return M (a, b, c, d, e, f, g, h, i); });
    D ("__init__", +[] (const bp::tuple& r0, const bp::tuple& r1, const bp::tuple& r2) { bp::tuple r[3] = { r0, r1, r2 }; return from_rows<M> (r); });
    D ("fastMinor", +[] (M& a, int r0, int r1, int c0, int c1) { return a.fastMinor (r0, r1, c0, c1); });
    // the 2-D decomposition yields one shear factor and one rotation angle; the python form stores them in .x of a V2 (y = 0)
    D ("extractEuler", +[] (M& m, V& dst) { T r; IMATH_NAMESPACE::extractEuler (m, r); dst.setValue (r, T (0)); });
    D ("extractSHRT", +[] (M& m, V& s, V& h, V& r, V& t) {
        T hh, rr;
        int b = IMATH_NAMESPACE::extractSHRT (m, s, hh, rr, t, true);
        h.setValue (hh, T (0)); r.setValue (rr, T (0));
        return b;
    });
    D ("extractSHRT", +[] (M& m, V& s, V& h, V& r, V& t, int exc) {
        T hh, rr;
        int b = IMATH_NAMESPACE::extractSHRT (m, s, hh, rr, t, exc);
        h.setValue (hh, T (0)); r.setValue (rr, T (0));
        return b;
    });
    D ("extractScalingAndShear", +[] (M& m, V& s, V& h) { T hh; IMATH_NAMESPACE::extractScalingAndShear (m, s, hh, true); h.setValue (hh, T (0)); });
    D ("extractScalingAndShear", +[] (M& m, V& s, V& h, int exc) { T hh; IMATH_NAMESPACE::extractScalingAndShear (m, s, hh, exc); h.setValue (hh, T (0)); });
    D ("extractAndRemoveScalingAndShear", +[] (M& m, V& s, V& h) { T hh; IMATH_NAMESPACE::extractAndRemoveScalingAndShear (m, s, hh, true); h.setValue (hh, T (0)); });
    D ("extractAndRemoveScalingAndShear", +[] (M& m, V& s, V& h, int exc) { T hh; IMATH_NAMESPACE::extractAndRemoveScalingAndShear (m, s, hh, exc); h.setValue (hh, T (0)); });
    // helper for the driver: does the library's 2-D decomposition succeed? (when it returns false without throwing, the shear and
    // rotation outputs are unspecified: the python forms copy them from temporaries the library never wrote)
    bp::def ((std::string ("_") + cls + "_decomposable").c_str (), +[] (const M& m) {
        M c (m); V s; T h = T (0);
        return IMATH_NAMESPACE::extractAndRemoveScalingAndShear (c, s, h, false);
    });
    D ("outerProduct", +[] (M& m, const Vec3<T>& a, const Vec3<T>& b) { m = IMATH_NAMESPACE::outerProduct (a, b); });
    D ("rotate", +[] (M& m, T r) { return M (m.rotate (r)); });
    D ("setRotation", +[] (M& m, T r) { return M (m.setRotation (r)); });
    D ("setShear", +[] (M& m, T h) { return M (m.setShear (h)); });
    D ("setShear", +[] (M& m, const V& h) { return M (m.setShear (h)); });
    D ("setShear", +[] (M& m, const bp::tuple& h) { return M (m.setShear (from_seq<V> (h))); });
    D ("shear", +[] (M& m, T h) { return M (m.shear (h)); });
    D ("shear", +[] (M& m, const V& h) { return M (m.shear (h)); });
    D ("shear", +[] (M& m, const bp::tuple& h) { return M (m.shear (from_seq<V> (h))); });
}

template <class T> Matrix44<T>& set_shear_seq (Matrix44<T>& m, const bp::tuple& t, bool set)
{
    if (seqlen (t) == 3)
    {
        Vec3<T> h = from_seq<Vec3<T>> (t);
        if (set) m.setShear (h); else m.shear (h);
        return m;
    }
    if (seqlen (t) != 6) throw std::domain_error ("shear needs a tuple of length 3 or 6");
    Shear6<T> h;
    for (int i = 0; i < 6; ++i) h[i] = num<T> (t[i]);
    if (set) m.setShear (h); else m.shear (h);
    return m;
}

template <class T> void m44_refs (const char* cls)
{
    typedef Matrix44<T> M;
    typedef Vec3<T> V;
    Reg D (cls);
    matrix_common<M> (D);
    matrix_affine<M, V> (D);
    D ("__init__", +[] (T a, T b, T c, T d, T e, T f, T g, T h, T i, T j, T k, T l, T m, T n, T o, T p) {
        return M (a, b, c, d, e, f, g, h, i, j, k, l, m, n, o, p);
    });
    D ("__init__", +[] (const bp::tuple& r0, const bp::tuple& r1, const bp::tuple& r2, const bp::tuple& r3) {
        bp::tuple r[4] = { r0, r1, r2, r3 };
        return from_rows<M> (r);
    });
    D ("fastMinor", +[] (M& a, int r0, int r1, int r2, int c0, int c1, int c2) { return a.fastMinor (r0, r1, r2, c0, c1, c2); });
    D ("extractEulerXYZ", +[] (M& m, V& dst) { IMATH_NAMESPACE::extractEulerXYZ (m, dst); });
    D ("extractEulerZYX", +[] (M& m, V& dst) { IMATH_NAMESPACE::extractEulerZYX (m, dst); });
    D ("extractSHRT", +[] (M& m, V& s, V& h, V& r, V& t) { return int (IMATH_NAMESPACE::extractSHRT (m, s, h, r, t, true)); });
    D ("extractSHRT", +[] (M& m, V& s, V& h, V& r, V& t, int exc) { return int (IMATH_NAMESPACE::extractSHRT (m, s, h, r, t, exc)); });
    D ("extractScalingAndShear", +[] (M& m, V& s, V& h) { IMATH_NAMESPACE::extractScalingAndShear (m, s, h, true); });
    D ("extractScalingAndShear", +[] (M& m, V& s, V& h, int exc) { IMATH_NAMESPACE::extractScalingAndShear (m, s, h, exc); });
    D ("extractAndRemoveScalingAndShear", +[] (M& m, V& s, V& h) { IMATH_NAMESPACE::extractAndRemoveScalingAndShear (m, s, h, true); });
    D ("extractAndRemoveScalingAndShear", +[] (M& m, V& s, V& h, int exc) { IMATH_NAMESPACE::extractAndRemoveScalingAndShear (m, s, h, exc); });
    D ("rotate", +[] (M& m, const V& r) { return M (m.rotate (r)); });
    D ("rotationMatrix", +[] (M& m, const bp::object& from, const bp::object& to) {
        m = IMATH_NAMESPACE::rotationMatrix (vec_arg<V> (from), vec_arg<V> (to));
        return M (m);
    });
    D ("rotationMatrixWithUpDir", +[] (M& m, const bp::object& from, const bp::object& to, const bp::object& up) {
        m = IMATH_NAMESPACE::rotationMatrixWithUpDir (vec_arg<V> (from), vec_arg<V> (to), vec_arg<V> (up));
        return M (m);
    });
    D ("setEulerAngles", +[] (M& m, const V& r) { m.setEulerAngles (r); });
    D ("setAxisAngle", +[] (M& m, const V& axis, T angle) { m.setAxisAngle (axis, angle); });
    D ("setShear", +[] (M& m, const V& h) { return M (m.setShear (h)); });
    D ("setShear", +[] (M& m, const Shear6<T>& h) { return M (m.setShear (h)); });
    D ("setShear", +[] (M& m, const bp::tuple& h) { return M (set_shear_seq (m, h, true)); });
    D ("shear", +[] (M& m, const V& h) { return M (m.shear (h)); });
    D ("shear", +[] (M& m, const Shear6<T>& h) { return M (m.shear (h)); });
    D ("shear", +[] (M& m, const bp::tuple& h) { return M (set_shear_seq (m, h, false)); });
}

} // namespace vr
#endif
