// verifdigest — returns the exact element bytes of any PyImath FixedArray<T> (read through the
// array's own operator[], so masked references are followed) as a Python bytes object. Used by the
// C20 explorer to compare results bit for bit without a Python-level loop per element.
// Euler<T> has uninitialised padding / enum fields, so it is serialised field by field.
#include <PyImathFixedArray.h>
#include <ImathBox.h>
#include <ImathColor.h>
#include <ImathEuler.h>
#include <ImathMatrix.h>
#include <ImathQuat.h>
#include <ImathVec.h>
#include <boost/python.hpp>
#include <string>

using namespace boost::python;
using namespace IMATH_NAMESPACE;
using PyImath::FixedArray;

template <class T> static void put (std::string& s, const T& v) { s.append ((const char*) &v, sizeof (T)); }
template <class T> static void put (std::string& s, const Euler<T>& e)
{
    put (s, e.x); put (s, e.y); put (s, e.z);
    int o = (int) e.order (); put (s, o);
}
template <class V> static void put (std::string& s, const Box<V>& b) { put (s, b.min); put (s, b.max); }
static void put (std::string& s, const bool& b) { s.push_back (b ? 1 : 0); }

template <class T> static bool try_one (PyObject* o, std::string& out)
{
    extract<FixedArray<T>&> ex (o);
    if (!ex.check ()) return false;
    FixedArray<T>& a = ex ();
    size_t n = a.len ();
    out.reserve (n * sizeof (T) + 16);
    put (out, n);
    for (size_t i = 0; i < n; ++i) put (out, a[i]);
    return true;
}

template <class T> static bool try_vecs (PyObject* o, std::string& out)
{
    return try_one<Vec2<T>> (o, out) || try_one<Vec3<T>> (o, out) || try_one<Vec4<T>> (o, out) ||
           try_one<Box<Vec2<T>>> (o, out) || try_one<Box<Vec3<T>>> (o, out);
}

static object digest (object obj)
{
    PyObject*   o = obj.ptr ();
    std::string out;
    bool ok = try_one<float> (o, out) || try_one<double> (o, out) || try_one<int> (o, out) || try_one<short> (o, out) ||
              try_one<unsigned char> (o, out) || try_one<signed char> (o, out) || try_one<unsigned short> (o, out) ||
              try_one<unsigned int> (o, out) || try_one<bool> (o, out) || try_one<long> (o, out) ||
              try_vecs<float> (o, out) || try_vecs<double> (o, out) || try_vecs<int> (o, out) || try_vecs<short> (o, out) ||
              try_vecs<int64_t> (o, out) || try_one<Vec3<unsigned char>> (o, out) || try_one<Vec4<unsigned char>> (o, out) ||
              try_one<Color3<float>> (o, out) || try_one<Color3<unsigned char>> (o, out) ||
              try_one<Color4<float>> (o, out) || try_one<Color4<unsigned char>> (o, out) ||
              try_one<Quat<float>> (o, out) || try_one<Quat<double>> (o, out) ||
              try_one<Matrix22<float>> (o, out) || try_one<Matrix22<double>> (o, out) ||
              try_one<Matrix33<float>> (o, out) || try_one<Matrix33<double>> (o, out) ||
              try_one<Matrix44<float>> (o, out) || try_one<Matrix44<double>> (o, out) ||
              try_one<Euler<float>> (o, out) || try_one<Euler<double>> (o, out);
    if (!ok) return object (); // None: caller falls back to the Python-level decomposition
    return object (handle<> (PyBytes_FromStringAndSize (out.data (), (Py_ssize_t) out.size ())));
}

BOOST_PYTHON_MODULE (verifdigest) { def ("digest", &digest); }
