#include "verifref_matrix.hpp"
BOOST_PYTHON_MODULE (verifref_m33)
{
    vr::m33_refs<float> ("M33f");
    vr::m33_refs<double> ("M33d");
}
