"""C19 exploration 4: FixedArray2D, FixedMatrix, FixedVArray against nested Python lists (every index and forward slice
per dimension, the property's own restriction), and StringArray histories over all interning orders.
"""
import itertools
import imath
from c19_common import fork_map, run_case, int_array, masks_of, ASAN, HUGE, huge_class

R4 = list(range(-4, 5))
S4 = [None] + R4


def dim_selections(L):
    """Every index expression for one dimension of extent L: (python index, selected positions | None = must raise, class)."""
    out = []
    for i in R4:
        out.append((i, [i % L] if -L <= i < L else None, "int.in-range" if -L <= i < L else "int.out-of-range"))
    for st in S4:
        for sp in S4:
            for step in (None, 1, 2, 3):
                sl = slice(st, sp, step)
                sel = list(range(*sl.indices(L)))
                out.append((sl, sel, "slice.empty" if not sel else "slice.forward"))
    out.append((slice(None, None, 0), None, "slice.zero-step"))
    return out


def reps(L):
    """A few representative expressions for the *other* dimension."""
    r = [(slice(None), list(range(L))), (slice(1, None), list(range(1, L))), (slice(None, None, 2), list(range(0, L, 2)))]
    if L: r += [(0, [0]), (-1, [L - 1])]
    return r


def show(ix): return repr(ix).replace("slice", "s")


HTAG = {"int-range": "huge-index", "ssize-range": "index-beyond-int", "overflowing": "overflowing-index"}


def attempt(t, site, f):
    try:
        return f(), None
    except Exception as e:
        nm = type(e).__name__
        if nm == "ArgumentError": t.fail(site.split(".")[0] + ".harness.argument-error", str(e)[:160], "a registered overload", nm)
        return None, nm


# ------------------------------------------------------------------------------------------------- FixedArray2D
A2D = {"IntArray2D": (int, "IntArray"), "FloatArray2D": (float, "FloatArray"), "DoubleArray2D": (float, "DoubleArray"),
       "Color4fArray2D": (lambda k: imath.Color4f(k, k + 1, k + 2, k + 3), "C4fArray"),
       "Color4cArray2D": (lambda k: imath.Color4c(k, k + 1, k + 2, k + 3), "C4cArray")}


def run_2d(item, t):
    cname, sx, sy = item
    mk, c1d = A2D[cname]
    C = getattr(imath, cname)
    ident = lambda i, j: 1 + 4 * i + j
    base = [[ident(i, j) for j in range(sy)] for i in range(sx)]

    def build(nx, ny, f):
        a = C(nx, ny)
        for i in range(nx):
            for j in range(ny): a[i, j] = mk(f(i, j))
        return a

    def read(a):
        nx, ny = a.size()
        return [[repr(a.item(i, j)) for j in range(ny)] for i in range(nx)]

    def want(M): return [[repr(mk(k)) for k in row] for row in M]

    a = build(sx, sy, ident)
    ctx = "%s(%d,%d) " % (cname, sx, sy)
    t.add("states")
    t.add("transitions", 2)
    if len(a) != sx * sy or tuple(a.size()) != (sx, sy):
        t.fail("nd.FixedArray2D.size", ctx + "len/size", (sx * sy, (sx, sy)), (len(a), a.size()))
    if read(a) != want(base):
        t.fail("nd.FixedArray2D.build", ctx + "a[i,j]=v; a.item(i,j)", want(base), read(a)); return

    def restore():
        for i in range(sx):
            for j in range(sy): a[i, j] = mk(base[i][j])

    def unchanged(site, what):
        t.add("evaluations")
        if read(a) != want(base):
            t.fail(site, ctx + what, "contents unchanged", read(a)); restore()

    # item(i,j)
    for i in R4:
        for j in R4:
            t.add("transitions")
            v, exc = attempt(t, "nd.FixedArray2D.item", lambda: a.item(i, j))
            ok = -sx <= i < sx and -sy <= j < sy
            if ok:
                if exc or repr(v) != repr(mk(base[i % sx][j % sy])): t.fail("nd.FixedArray2D.item", ctx + "item(%d,%d)" % (i, j), repr(mk(base[i % sx][j % sy])), exc or repr(v))
            elif exc is None:
                t.fail("nd.FixedArray2D.item.out-of-range", ctx + "item(%d,%d)" % (i, j), "an exception", repr(v))
    newv = mk(50)
    pairs = []
    for ix, sel, cl in dim_selections(sx):
        for iy, sely in reps(sy): pairs.append((ix, sel, iy, sely, cl))
    for iy, sel, cl in dim_selections(sy):
        for ix, selx in reps(sx): pairs.append((ix, selx, iy, sel, cl))
    for ix, selx, iy, sely, cl in pairs:
        t.cls("nd.2d." + cl)
        what = "a[%s,%s]" % (show(ix), show(iy))
        bad = selx is None or sely is None
        # get
        t.add("transitions")
        r, exc = attempt(t, "nd.FixedArray2D.getitem", lambda: a[ix, iy])
        if bad:
            if exc is None: t.fail("nd.FixedArray2D.getitem.invalid-accepted", ctx + what, "an exception", read(r))
        else:
            w = [[base[i][j] for j in sely] for i in selx]
            if exc: t.fail("nd.FixedArray2D.getitem", ctx + what, want(w), exc)
            elif tuple(r.size()) != (len(selx), len(sely)) or (len(selx) and len(sely) and read(r) != want(w)):
                t.fail("nd.FixedArray2D.getitem", ctx + what, (len(selx), len(sely), want(w)), (r.size(), read(r)))
        # set scalar
        t.add("transitions")
        _, exc = attempt(t, "nd.FixedArray2D.setitem.scalar", lambda: a.__setitem__((ix, iy), newv))
        if bad:
            if exc is None: t.fail("nd.FixedArray2D.setitem.scalar.invalid-accepted", ctx + what + "=elem", "an exception", read(a))
            unchanged("nd.FixedArray2D.setitem.scalar.invalid-accepted", what + "=elem")
            continue
        M = [list(r_) for r_ in base]
        for i in selx:
            for j in sely: M[i][j] = 50
        if exc or read(a) != want(M): t.fail("nd.FixedArray2D.setitem.scalar", ctx + what + "=elem", want(M), exc or read(a))
        restore()
        # set 2-D array, right and wrong dimensions
        kx, ky = len(selx), len(sely)
        src = build(kx, ky, lambda i, j: 60 + 4 * i + j)
        t.add("transitions")
        _, exc = attempt(t, "nd.FixedArray2D.setitem.array2d", lambda: a.__setitem__((ix, iy), src))
        M = [list(r_) for r_ in base]
        for p, i in enumerate(selx):
            for q, j in enumerate(sely): M[i][j] = 60 + 4 * p + q
        if exc or read(a) != want(M): t.fail("nd.FixedArray2D.setitem.array2d", ctx + what + "=array2d(%d,%d)" % (kx, ky), want(M), exc or read(a))
        restore()
        for dx, dy in ((1, 0), (0, 1)):
            bad_src = C(kx + dx, ky + dy)
            t.add("transitions")
            _, exc = attempt(t, "nd.FixedArray2D.setitem.array2d", lambda: a.__setitem__((ix, iy), bad_src))
            if exc is None: t.fail("nd.FixedArray2D.setitem.array2d.wrong-size", ctx + what + "=array2d(%d,%d)" % (kx + dx, ky + dy), "an exception", read(a))
            unchanged("nd.FixedArray2D.setitem.array2d.wrong-size", what + "=array2d(%d,%d)" % (kx + dx, ky + dy))
        # 1-D source: right length stores exactly the source values into exactly the selected cells (order not promised)
        C1 = getattr(imath, c1d)
        s1 = C1(kx * ky)
        for z in range(kx * ky): s1[z] = mk(90 + z)
        t.add("transitions")
        _, exc = attempt(t, "nd.FixedArray2D.setitem.array1d", lambda: a.__setitem__((ix, iy), s1))
        got = read(a); wb = want(base)
        cells = sorted(got[i][j] for i in selx for j in sely)
        rest_ok = all(got[i][j] == wb[i][j] for i in range(sx) for j in range(sy) if not (i in selx and j in sely))
        if exc or cells != sorted(repr(mk(90 + z)) for z in range(kx * ky)) or not rest_ok:
            t.fail("nd.FixedArray2D.setitem.array1d", ctx + what + "=array1d(len %d)" % (kx * ky), "selected cells hold the source values, others unchanged", exc or got)
        restore()
        s1b = C1(kx * ky + 1)
        t.add("transitions")
        _, exc = attempt(t, "nd.FixedArray2D.setitem.array1d", lambda: a.__setitem__((ix, iy), s1b))
        if exc is None: t.fail("nd.FixedArray2D.setitem.array1d.wrong-size", ctx + what + "=array1d(len %d)" % (kx * ky + 1), "an exception", read(a))
        unchanged("nd.FixedArray2D.setitem.array1d.wrong-size", what + "=array1d(len+1)")
    # integer indices of magnitude 2^31..2^64 in either dimension: out of range whatever the size, also when the value does
    # not fit the C index type
    for k in HUGE:
        tag = HTAG[huge_class(k)]
        t.cls("nd.2d.int.huge." + huge_class(k))
        for dim in (0, 1):
            oth = 0 if (sy if dim == 0 else sx) else slice(None)
            ix = (k, oth) if dim == 0 else (oth, k)
            what = "a[%s,%s]" % (show(ix[0]), show(ix[1]))
            t.add("transitions", 2)
            r, exc = attempt(t, "nd.FixedArray2D.getitem", lambda: a[ix])
            if exc is None: t.fail("nd.FixedArray2D.getitem." + tag, ctx + what, "an exception", read(r))
            if isinstance(oth, int):
                r, exc = attempt(t, "nd.FixedArray2D.item", lambda: a.item(*ix))
                if exc is None: t.fail("nd.FixedArray2D.item." + tag, ctx + "item(%s,%s)" % ix, "an exception", repr(r))
            oky = 1 if isinstance(oth, int) else (sx if dim == 1 else sy)
            shp = (1, oky) if dim == 0 else (oky, 1)
            for nm, v in (("elem", newv), ("array2d(%d,%d)" % shp, C(*shp)), ("array1d(len %d)" % oky, getattr(imath, c1d)(oky))):
                t.add("transitions")
                _, exc = attempt(t, "nd.FixedArray2D.setitem", lambda: a.__setitem__(ix, v))
                site = "nd.FixedArray2D.setitem." + tag            # one site per container: all stores share extract_slice_indices
                if exc is None: t.fail(site, ctx + what + "=" + nm, "an exception", read(a))
                unchanged(site, what + "=" + nm)
    # masks (every 0/1 mask of the same shape; one wrong shape per axis)
    cells = [(i, j) for i in range(sx) for j in range(sy)]
    other = build(sx, sy, lambda i, j: 70 + 4 * i + j)
    C1 = getattr(imath, c1d)
    for bits, enc in [(b, e) for b in range(1 << len(cells)) for e in (0, 1)]:
        on = set(c for k, c in enumerate(cells) if (bits >> k) & 1)
        if enc and not on: continue
        t.cls("nd.2d.mask.nonzero-values" if enc else "nd.2d.mask")
        m = imath.IntArray2D(sx, sy)
        # enc 1: the selected cells hold other non-zero values than 1 (a mask entry selects iff it is non-zero)
        for q, (i, j) in enumerate(cells): m[i, j] = ((2, -1, -2**31, 3)[q % 4] if enc else 1) if (i, j) in on else 0
        ms = "mask{%s}%s" % (",".join("%d%d" % c for c in sorted(on)), " (entries 2,-1,INT_MIN,3,..)" if enc else "")
        # a[mask] = array1d: full length (one source element per cell, flattened) or compressed (one per selected cell).
        # The flattening order is not part of the property: x-fastest and y-fastest are both accepted, per call.
        orders = [sorted(cells, key=lambda c: (c[1], c[0])), sorted(cells)]
        for ln, kind in ((sx * sy, "full"), (len(on), "compressed")):
            if kind == "compressed" and len(on) == sx * sy: continue
            s1 = C1(ln)
            for z in range(ln): s1[z] = mk(90 + z)
            t.add("transitions"); t.cls("nd.2d.mask.array1d-" + kind)
            _, exc = attempt(t, "nd.FixedArray2D.mask.setitem", lambda: a.__setitem__(m, s1))
            cands = []
            for od in orders:
                M = [list(r_) for r_ in base]
                seq = od if kind == "full" else [c for c in od if c in on]
                for z, (i, j) in enumerate(seq):
                    if (i, j) in on: M[i][j] = 90 + z
                cands.append(want(M))
            if exc or read(a) not in cands:
                t.fail("nd.FixedArray2D.mask.setitem.array1d." + kind, ctx + "a[%s]=array1d(len %d)" % (ms, ln), "%s (x-fastest) or %s (y-fastest)" % tuple(cands), exc or read(a))
            restore()
        for ln in sorted({len(on) + 1, sx * sy + 1, len(on) - 1} - {len(on), sx * sy, -1}):
            s1 = C1(ln)
            t.add("transitions"); t.cls("nd.2d.mask.array1d-wrong-length")
            _, exc = attempt(t, "nd.FixedArray2D.mask.setitem", lambda: a.__setitem__(m, s1))
            if exc is None: t.fail("nd.FixedArray2D.mask.setitem.array1d.wrong-length", ctx + "a[%s]=array1d(len %d)" % (ms, ln), "an exception", read(a))
            unchanged("nd.FixedArray2D.mask.setitem.array1d.wrong-length", "a[%s]=array1d(len %d)" % (ms, ln))
        t.add("transitions")
        r, exc = attempt(t, "nd.FixedArray2D.ifelse", lambda: a.ifelse(m, newv))
        M = [[base[i][j] if (i, j) in on else 50 for j in range(sy)] for i in range(sx)]
        if exc or read(r) != want(M): t.fail("nd.FixedArray2D.ifelse.scalar", ctx + "a.ifelse(%s, elem)" % ms, want(M), exc or read(r))
        unchanged("nd.FixedArray2D.ifelse.scalar", "a.ifelse(mask, elem) modifies the receiver")
        t.add("transitions", 4)
        r, exc = attempt(t, "nd.FixedArray2D.mask.getitem", lambda: a[m])
        if exc or tuple(r.size()) != (sx, sy) or any(repr(r.item(i, j)) != repr(mk(base[i][j])) for (i, j) in on):
            t.fail("nd.FixedArray2D.mask.getitem", ctx + "a[%s]" % ms, "selected cells equal", exc or read(r))
        _, exc = attempt(t, "nd.FixedArray2D.mask.setitem", lambda: a.__setitem__(m, newv))
        M = [[50 if (i, j) in on else base[i][j] for j in range(sy)] for i in range(sx)]
        if exc or read(a) != want(M): t.fail("nd.FixedArray2D.mask.setitem.scalar", ctx + "a[%s]=elem" % ms, want(M), exc or read(a))
        restore()
        _, exc = attempt(t, "nd.FixedArray2D.mask.setitem", lambda: a.__setitem__(m, other))
        M = [[70 + 4 * i + j if (i, j) in on else base[i][j] for j in range(sy)] for i in range(sx)]
        if exc or read(a) != want(M): t.fail("nd.FixedArray2D.mask.setitem.array2d", ctx + "a[%s]=array2d" % ms, want(M), exc or read(a))
        restore()
        r, exc = attempt(t, "nd.FixedArray2D.ifelse", lambda: a.ifelse(m, other))
        M = [[base[i][j] if (i, j) in on else 70 + 4 * i + j for j in range(sy)] for i in range(sx)]
        if exc or read(r) != want(M): t.fail("nd.FixedArray2D.ifelse", ctx + "a.ifelse(%s, array2d)" % ms, want(M), exc or read(r))
        unchanged("nd.FixedArray2D.ifelse", "a.ifelse(...) modifies the receiver")
    for wx, wy in ((sx + 1, sy), (sx, sy + 1)):
        m = imath.IntArray2D(wx, wy)
        t.cls("nd.2d.mask-wrong-shape")
        for nm, f in (("a[m]", lambda: a[m]), ("a[m]=elem", lambda: a.__setitem__(m, newv)), ("a[m]=array2d", lambda: a.__setitem__(m, other)),
                      ("a.ifelse(m,elem)", lambda: a.ifelse(m, newv))):
            t.add("transitions")
            _, exc = attempt(t, "nd.FixedArray2D.mask", f)
            if exc is None: t.fail("nd.FixedArray2D.mask.wrong-shape-accepted", ctx + nm + " mask(%d,%d)" % (wx, wy), "an exception", "none")
            unchanged("nd.FixedArray2D.mask.wrong-shape-accepted", nm)
    if (sx, sy) == (2, 3): t.sample("%s(2,3): %d index pairs x get/set-scalar/set-2D/set-1D, %d masks" % (cname, len(pairs), 1 << 6))


def malformed_2d(R):
    """Index expressions that are not a pair: must raise, never crash. Each case in a forked child."""
    def case(kind, src):
        a = imath.IntArray2D(2, 2)
        for i in range(2):
            for j in range(2): a[i, j] = 1 + 2 * i + j
        idx = {"int": 0, "1-tuple": (0,), "slice": slice(None), "none": None}[kind]
        v = {"elem": 5, "array2d": imath.IntArray2D(1, 1), "array1d": imath.IntArray(1)}[src]
        try:
            a[idx] = v; r = "accepted"
        except Exception as e:
            r = "raised " + type(e).__name__
        return r, [[a.item(i, j) for j in range(2)] for i in range(2)]
    for kind in ("int", "1-tuple", "slice", "none"):
        for src in ("elem", "array2d", "array1d"):
            R.add("transitions"); R.cls("nd.2d.malformed-index")
            k, val = run_case(case, kind, src)
            inp = "a=IntArray2D(2,2); a[%s] = %s" % ({"int": "0", "1-tuple": "(0,)", "slice": ":", "none": "None"}[kind], src)
            if k == "fatal":
                R.fail("nd.FixedArray2D.setitem.%s.malformed-index.fatal" % ("scalar-source" if src == "elem" else "array-source"), inp, "an exception (the index is not an (x, y) pair)", val)
            elif k == "ok" and val[1] != [[1, 2], [3, 4]] and val[0].startswith("raised"):
                R.fail("nd.FixedArray2D.setitem.malformed-index.changed-state", inp, "unchanged", val)


# ------------------------------------------------------------------------------------------------- FixedMatrix
MATS = {"IntMatrix": (int, "IntArray"), "FloatMatrix": (float, "FloatArray"), "DoubleMatrix": (float, "DoubleArray")}


def run_matrix(item, t):
    cname, nr, nc = item
    mk, c1d = MATS[cname]
    C = getattr(imath, cname); C1 = getattr(imath, c1d)
    base = [[1 + 4 * i + j for j in range(nc)] for i in range(nr)]

    def build(r, c, f):
        m = C(r, c)
        for i in range(r):
            row = m[i]
            for j in range(c): row[j] = mk(f(i, j))
        return m

    def vec(n, f):
        v = C1(n)
        for j in range(n): v[j] = mk(f(j))
        return v

    def read(m): return [[repr(m[i][j]) for j in range(m.columns())] for i in range(m.rows())]
    def want(M): return [[repr(mk(k)) for k in row] for row in M]
    a = build(nr, nc, lambda i, j: base[i][j])
    ctx = "%s(%d,%d) " % (cname, nr, nc)
    t.add("states"); t.add("transitions", 2)
    if (len(a), a.rows(), a.columns()) != (nr, nr, nc): t.fail("nd.FixedMatrix.size", ctx + "len/rows/columns", (nr, nr, nc), (len(a), a.rows(), a.columns()))
    if read(a) != want(base): t.fail("nd.FixedMatrix.build", ctx + "m[i][j]=v", want(base), read(a)); return

    def restore():
        for i in range(nr):
            row = a[i]
            for j in range(nc): row[j] = mk(base[i][j])

    def unchanged(site, what):
        t.add("evaluations")
        if read(a) != want(base): t.fail(site, ctx + what, "contents unchanged", read(a)); restore()

    newv = mk(50)
    for ix, sel, cl in dim_selections(nr):
        t.cls("nd.matrix." + cl)
        what = "m[%s]" % show(ix)
        isint = isinstance(ix, int)
        t.add("transitions")
        r, exc = attempt(t, "nd.FixedMatrix.getitem", lambda: a[ix])
        if sel is None:
            if exc is None: t.fail("nd.FixedMatrix.getitem.invalid-accepted", ctx + what, "an exception", "none")
        elif isint:
            w = want([base[sel[0]]])[0]
            if exc or [repr(r[j]) for j in range(len(r))] != w: t.fail("nd.FixedMatrix.getitem.row", ctx + what, w, exc or [repr(r[j]) for j in range(len(r))])
            elif nc:
                # the row is a view: a store through it lands in the matrix
                t.add("transitions")
                r[nc - 1] = newv
                M = [list(x) for x in base]; M[sel[0]][nc - 1] = 50
                if read(a) != want(M): t.fail("nd.FixedMatrix.row.write-through", ctx + "r=%s; r[-1]=elem" % what, want(M), read(a))
                restore()
        else:
            w = want([base[i] for i in sel])
            if exc or r.rows() != len(sel) or r.columns() != nc or read(r) != w:
                t.fail("nd.FixedMatrix.getitem.slice", ctx + what, w, exc or read(r))
        # scalar store
        t.add("transitions")
        _, exc = attempt(t, "nd.FixedMatrix.setitem", lambda: a.__setitem__(ix, newv))
        if sel is None:
            if exc is None: t.fail("nd.FixedMatrix.setitem.scalar.invalid-accepted", ctx + what + "=elem", "an exception", "none")
            unchanged("nd.FixedMatrix.setitem.scalar.invalid-accepted", what + "=elem")
            continue
        M = [[50] * nc if i in sel else list(base[i]) for i in range(nr)]
        if exc or read(a) != want(M): t.fail("nd.FixedMatrix.setitem.scalar", ctx + what + "=elem", want(M), exc or read(a))
        restore()
        # vector store: every selected row takes the vector
        v = vec(nc, lambda j: 60 + j)
        t.add("transitions")
        _, exc = attempt(t, "nd.FixedMatrix.setitem", lambda: a.__setitem__(ix, v))
        M = [[60 + j for j in range(nc)] if i in sel else list(base[i]) for i in range(nr)]
        if exc or read(a) != want(M): t.fail("nd.FixedMatrix.setitem.vector", ctx + what + "=array(len cols)", want(M), exc or read(a))
        restore()
        # the same store with a MASKED REFERENCE of a longer array as the source (its selected elements are not a prefix
        # of the underlying storage): the row takes the elements the mask selects, in order
        if nc >= 1:
            big = vec(2 * nc + 1, lambda j: 700 + j)
            bits = [1 if (j % 2 == 1) else 0 for j in range(2 * nc + 1)]      # selects positions 1,3,5,... (nc of them)
            mref = big[int_array(bits)]
            t.add("transitions"); t.cls("nd.matrix.row-store-from-masked-reference")
            _, exc = attempt(t, "nd.FixedMatrix.setitem", lambda: a.__setitem__(ix, mref))
            M = [[700 + 2 * j + 1 for j in range(nc)] if i in sel else list(base[i]) for i in range(nr)]
            if exc or read(a) != want(M): t.fail("nd.FixedMatrix.setitem.vector.masked-reference-source", ctx + what + "=array[mask 0101..] (len cols)", want(M), exc or read(a))
            restore()
        for d in (1, -1):
            if nc + d < 0: continue
            bad = C1(nc + d)
            t.add("transitions")
            _, exc = attempt(t, "nd.FixedMatrix.setitem", lambda: a.__setitem__(ix, bad))
            if exc is None: t.fail("nd.FixedMatrix.setitem.vector.wrong-length", ctx + what + "=array(len %d)" % (nc + d), "an exception", read(a))
            unchanged("nd.FixedMatrix.setitem.vector.wrong-length", what + "=array(len %d)" % (nc + d))
        # matrix store
        k = len(sel)
        src = build(k, nc, lambda i, j: 70 + 4 * i + j)
        t.add("transitions")
        _, exc = attempt(t, "nd.FixedMatrix.setitem", lambda: a.__setitem__(ix, src))
        M = [list(x) for x in base]
        for p, i in enumerate(sel): M[i] = [70 + 4 * p + j for j in range(nc)]
        if exc or read(a) != want(M): t.fail("nd.FixedMatrix.setitem.matrix", ctx + what + "=matrix(%d,%d)" % (k, nc), want(M), exc or read(a))
        restore()
        for dr, dc in ((1, 0), (0, 1)):
            bad = C(k + dr, nc + dc)
            t.add("transitions")
            _, exc = attempt(t, "nd.FixedMatrix.setitem", lambda: a.__setitem__(ix, bad))
            if exc is None: t.fail("nd.FixedMatrix.setitem.matrix.wrong-size", ctx + what + "=matrix(%d,%d)" % (k + dr, nc + dc), "an exception", read(a))
            unchanged("nd.FixedMatrix.setitem.matrix.wrong-size", what + "=matrix(%d,%d)" % (k + dr, nc + dc))


    for k in HUGE:
        tag = HTAG[huge_class(k)]
        t.cls("nd.matrix.int.huge." + huge_class(k))
        what = "m[%d]" % k
        t.add("transitions")
        r, exc = attempt(t, "nd.FixedMatrix.getitem", lambda: a[k])
        if exc is None: t.fail("nd.FixedMatrix.getitem." + tag, ctx + what, "an exception", "a row")
        for nm, v in (("scalar", newv), ("vector", vec(nc, lambda j: 60 + j)), ("matrix", build(1, nc, lambda i, j: 70 + j))):
            t.add("transitions")
            _, exc = attempt(t, "nd.FixedMatrix.setitem", lambda: a.__setitem__(k, v))
            site = "nd.FixedMatrix.setitem." + tag
            if exc is None: t.fail(site, ctx + what + "=" + nm, "an exception", read(a))
            unchanged(site, what + "=" + nm)


# ------------------------------------------------------------------------------------------------- FixedVArray
VARS = {"VIntArray": (int, "IntArray"), "VFloatArray": (float, "FloatArray"),
        "VV2iArray": (lambda k: imath.V2i(k, k + 1), "V2iArray"), "VV2fArray": (lambda k: imath.V2f(k, k + 1), "V2fArray")}


def run_varray(item, t):
    cname, sizes = item
    mk, c1d = VARS[cname]
    C = getattr(imath, cname); C1 = getattr(imath, c1d)
    n = len(sizes)
    base = [[1 + 4 * i + j for j in range(s)] for i, s in enumerate(sizes)]

    def build(M):
        v = C(len(M))
        for i, row in enumerate(M): v.size[i] = len(row)
        for i, row in enumerate(M):
            r = v[i]
            for j, k in enumerate(row): r[j] = mk(k)
        return v

    def vec(ks):
        v = C1(len(ks))
        for j, k in enumerate(ks): v[j] = mk(k)
        return v

    def read(v): return [[repr(r[j]) for j in range(len(r))] for r in (v[i] for i in range(len(v)))]
    def want(M): return [[repr(mk(k)) for k in row] for row in M]
    ctx = "%s sizes=%s " % (cname, list(sizes))
    a = build(base)
    t.add("states"); t.add("transitions", 3)
    if len(a) != n: t.fail("nd.FixedVArray.len", ctx, n, len(a))
    if read(a) != want(base): t.fail("nd.FixedVArray.build", ctx + "v.size[i]=s; v[i][j]=x", want(base), read(a)); return
    szs = a.size[slice(None)]
    if [szs[i] for i in range(len(szs))] != list(sizes): t.fail("nd.FixedVArray.size-helper", ctx + "v.size[:]", list(sizes), [szs[i] for i in range(len(szs))])
    ro = build(base); ro.makeReadOnly()

    def fresh():
        nonlocal a
        a = build(base)

    def state(site, what, M):
        t.add("evaluations")
        if read(a) != want(M): t.fail(site, ctx + what, want(M), read(a)); fresh(); return False
        return True

    def masked_size_helper(ms, m, sel):
        """The size helper THROUGH a masked reference w = v[mask]. The nested-list model of w is the list of the selected rows
        [rows[i] for i in sel] (the rows themselves, not copies): w.size[ix] reads the lengths of the rows ix selects in THAT
        list, and every store form resizes exactly those rows of v - a resize keeps the leading elements of a row (the new
        size 3 / 3+q is larger than every size of the scope {0,1,2}, so a row resized by mistake and a selected row left alone
        both show in len()). ix runs over every integer -k-1..k and every forward slice start,stop in {None,-k-1..k+1},
        step in {None,1,2} of the view's length k; masks over all 2^k 0/1 masks of the view's length. A masked reference of
        a masked reference cannot be constructed for FixedVArray (ValueError), so there is no second level to explore."""
        k = len(sel); msz = [sizes[i] for i in sel]
        pre = "nd.FixedVArray.masked-reference.size-helper."
        wh = "w=v[mask %s]; " % ms
        if k and sel != list(range(k)): t.cls("nd.varray.masked-size-helper.mask-not-a-leading-run")
        NEW = 3

        def lst(x): return [x[i] for i in range(len(x))] if hasattr(x, "__len__") else [x]

        def model(pairs):
            M = [list(x) for x in base]
            for i, new in pairs: M[i] = (list(base[i]) + [None] * new)[:new]
            return M

        def agrees(got, M):
            return len(got) == n and all(len(got[i]) == len(M[i]) and all(M[i][j] is None or got[i][j] == repr(mk(M[i][j])) for j in range(len(M[i]))) for i in range(n))

        def after(site, what, M, exc, w=None, alt_site=None, alt_M=None):
            t.add("evaluations")
            got = read(a)
            if exc or not agrees(got, M):
                st = alt_site if (alt_site and not exc and agrees(got, alt_M)) else site
                t.fail(st, ctx + wh + what, "row sizes %s (leading elements kept)" % [len(x) for x in M], exc or got)
            elif w is not None:
                vs, e2 = attempt(t, pre + "getitem", lambda: lst(w.size[slice(None)]))
                if e2 or vs != [len(M[i]) for i in sel]: t.fail(pre + "getitem.after-store", ctx + wh + what + "; w.size[:]", [len(M[i]) for i in sel], e2 or vs)
            if got != want(base): fresh()

        def unchanged(site, what, exc):
            t.add("evaluations")
            if exc is None or read(a) != want(base):
                t.fail(site, ctx + wh + what, "an exception, nothing resized", exc or read(a))
                if read(a) != want(base): fresh()

        exprs = [(p, [p % k] if -k <= p < k else None) for p in range(-k - 1, k + 1)]
        bounds = [None] + list(range(-k - 1, k + 2))
        exprs += [(slice(st, sp, step), list(range(*slice(st, sp, step).indices(k)))) for st in bounds for sp in bounds for step in (None, 1, 2)]
        for ix, q in exprs:
            what = "w.size[%s]" % show(ix)
            w = a[m]
            t.add("transitions", 3)
            got, exc = attempt(t, pre + "getitem", lambda: lst(w.size[ix]))
            if q is None:
                t.cls("nd.varray.masked-size-helper.int.out-of-range")
                if exc is None: t.fail(pre + "getitem.out-of-range-accepted", ctx + wh + what, "an exception", got)
                _, exc = attempt(t, pre + "setitem", lambda: w.size.__setitem__(ix, NEW))
                unchanged(pre + "setitem.out-of-range-accepted", what + "=%d" % NEW, exc)
                _, exc = attempt(t, pre + "setitem", lambda: w.size.__setitem__(ix, int_array([NEW])))
                unchanged(pre + "setitem.out-of-range-accepted", what + "=IntArray[%d]" % NEW, exc)
                continue
            if exc or got != [msz[p] for p in q]: t.fail(pre + "getitem", ctx + wh + what, [msz[p] for p in q], exc or got)
            if len(q) >= 1 and [sel[p] for p in q] != q: t.cls("nd.varray.masked-size-helper.selected-rows-differ-from-raw-rows")
            # scalar store
            _, exc = attempt(t, pre + "setitem", lambda: w.size.__setitem__(ix, NEW))
            after(pre + "setitem.scalar", what + "=%d" % NEW, model([(sel[p], NEW) for p in q]), exc, w)
            # IntArray store: one new size per selected row of the view
            w = a[m]
            news = [NEW + j for j in range(len(q))]
            _, exc = attempt(t, pre + "setitem", lambda: w.size.__setitem__(ix, int_array(news)))
            after(pre + "setitem.vector", what + "=IntArray%s" % news, model([(sel[p], news[j]) for j, p in enumerate(q)]), exc, w)
            if q: t.cls("nd.varray.masked-size-helper.vector-store")
            w = a[m]
            t.add("transitions")
            _, exc = attempt(t, pre + "setitem", lambda: w.size.__setitem__(ix, int_array(news + [NEW])))
            unchanged(pre + "setitem.vector.wrong-length", what + "=IntArray%s" % (news + [NEW]), exc)
        # mask forms, masks of the VIEW's length
        for mask2 in masks_of(k):
            m2 = int_array(mask2); ms2 = "".join(map(str, mask2)) or "<empty>"
            q = [p for p in range(k) if mask2[p]]
            w = a[m]
            t.add("transitions", 4)
            # read: the binding's slice overload may shadow the mask overload (TypeError) - a refusal is not a wrong answer
            got, exc = attempt(t, pre + "getitem", lambda: lst(w.size[m2]))
            if exc: t.add("nd.varray.masked-size-helper.mask-read-refused")
            elif got != [msz[p] for p in q]: t.fail(pre + "getitem.mask", ctx + wh + "w.size[mask %s]" % ms2, [msz[p] for p in q], got)
            if 0 < len(q) < k: t.cls("nd.varray.masked-size-helper.mask-store.partial-mask")
            _, exc = attempt(t, pre + "setitem", lambda: w.size.__setitem__(m2, NEW))
            after(pre + "setitem.mask-scalar", "w.size[mask %s]=%d" % (ms2, NEW), model([(sel[p], NEW) for p in q]), exc, w,
                  alt_site=pre + "setitem.mask-scalar.mask-ignored(every-row-of-the-view-resized)", alt_M=model([(i, NEW) for i in sel]))
            # IntArray through a mask on a masked reference: the binding documents a refusal; a refusal must leave the data
            # alone, an acceptance must follow the list model (full-length and compressed sources)
            for news, nm in (([NEW + p for p in range(k)], "full"), ([NEW + j for j in range(len(q))], "compressed")):
                if nm == "compressed" and len(q) == k: continue
                w = a[m]
                _, exc = attempt(t, pre + "setitem", lambda: w.size.__setitem__(m2, int_array(news)))
                if exc: unchanged(pre + "setitem.mask-vector.refused-but-modified", "w.size[mask %s]=IntArray%s" % (ms2, news), exc)
                else:
                    M = model([(sel[p], news[p] if nm == "full" else news[j]) for j, p in enumerate(q)])
                    after(pre + "setitem.mask-vector", "w.size[mask %s]=IntArray%s (%s)" % (ms2, news, nm), M, exc, w)
        # mask forms, masks of BOTH admissible lengths applied to the masked reference: the VIEW's length k (position p of the mask
        # speaks about row sel[p]) and the UNMASKED length n of v (position j of the mask speaks about row j of v; the library's
        # match_dimension admits both lengths on a masked reference, "the mask may have the masked or the unmasked length").
        # Oracle (a priori, the nested-list model of the statement): w denotes the rows of v selected by m1, a mask store through w
        # may touch only rows of w, and of those exactly the ones the mask selects: row j of v changes iff m1[j] and
        # (mask2[position of j in w] for a mask of length k / mask2[j] for a mask of length n). Every other row keeps its size
        # and contents. A refusal (exception) is accepted when nothing changed. When k == n the two readings coincide.
        # Forms: w.size[mask2] = scalar, w.size[mask2] = IntArray (length n, k and compressed), and the row store
        # w[mask2] = data (data of the common length of the addressed rows; only asked when they share one length, because a
        # length mismatch half-way is a different relation).
        upre = "nd.FixedVArray.masked-reference."
        for space, L in (("view-length-mask", k), ("unmasked-length-mask", n)):
            if space == "unmasked-length-mask" and k == n: continue
            for mask2 in masks_of(L):
                m2 = int_array(mask2); ms2 = "".join(map(str, mask2)) or "<empty>"
                rows = [sel[p] for p in range(k) if mask2[p]] if L == k else [j for j in sel if mask2[j]]
                hit_by_position = [sel[p] for p in range(k) if p < L and mask2[p]]        # what indexing an unmasked-length mask by view position would select
                if space == "unmasked-length-mask":
                    t.cls("nd.varray.masked-reference.unmasked-length-mask")
                    if rows != hit_by_position: t.cls("nd.varray.masked-reference.unmasked-length-mask.position-and-raw-index-disagree")
                tag = "mask(len %s=%d) %s" % ("k" if L == k else "n", L, ms2)
                if space == "unmasked-length-mask":      # (the view-length size forms are judged above)
                    t.add("transitions", 4)
                    w = a[m]
                    _, exc = attempt(t, pre + "setitem", lambda: w.size.__setitem__(m2, NEW))
                    if exc: unchanged(pre + "setitem.mask-scalar.unmasked-length-mask.refused-but-modified", "w.size[%s]=%d" % (tag, NEW), exc)
                    else: after(pre + "setitem.mask-scalar.unmasked-length-mask", "w.size[%s]=%d" % (tag, NEW), model([(j, NEW) for j in rows]), exc, w)
                    for news, nm in (([NEW + j for j in range(n)], "length n"), ([NEW + p for p in range(k)], "length k"), ([NEW + q for q in range(len(rows))], "compressed")):
                        w = a[m]
                        _, exc = attempt(t, pre + "setitem", lambda: w.size.__setitem__(m2, int_array(news)))
                        if exc: unchanged(pre + "setitem.mask-vector.unmasked-length-mask.refused-but-modified", "w.size[%s]=IntArray%s" % (tag, news), exc)
                        elif nm == "compressed" and len(news) in (n, k): pass          # indistinguishable from the full-length reading
                        else:
                            M = model([(j, news[j] if nm == "length n" else news[sel.index(j)] if nm == "length k" else news[q]) for q, j in enumerate(rows)])
                            after(pre + "setitem.mask-vector.unmasked-length-mask", "w.size[%s]=IntArray%s (%s)" % (tag, news, nm), M, exc, w)
                # row store w[mask2] = data
                rs = set(sizes[j] for j in rows)
                if len(rs) > 1: continue
                s = rs.pop() if rs else 1
                t.add("transitions")
                t.cls("nd.varray.masked-reference.row-store." + space)
                w = a[m]
                _, exc = attempt(t, upre + "row-store", lambda: w.__setitem__(m2, vec([60 + j for j in range(s)])))
                what = "w[%s]=array(len %d)" % (tag, s)
                site = upre + "row-store.mask-scalar." + space
                if exc: unchanged(site + ".refused-but-modified", what, exc)
                else:
                    M = [[60 + j for j in range(s)] if i in rows else list(base[i]) for i in range(n)]
                    t.add("evaluations")
                    if read(a) != want(M): t.fail(site, ctx + wh + what, want(M), read(a))
                    if read(a) != want(base): fresh()
        # read-only twin: no store form through a masked reference of it may resize anything
        wr, exc = attempt(t, pre + "readonly", lambda: ro[m])
        if not exc:
            for nm, f in (("w.size[:]=%d" % NEW, lambda: wr.size.__setitem__(slice(None), NEW)),
                          ("w.size[:]=IntArray", lambda: wr.size.__setitem__(slice(None), int_array([NEW] * k))),
                          ("w.size[mask 1..1]=%d" % NEW, lambda: wr.size.__setitem__(int_array([1] * k), NEW))):
                t.add("transitions")
                _, exc = attempt(t, pre + "readonly", f)
                if (exc is None and k) or read(ro) != want(base): t.fail(pre + "readonly", ctx + "w=ro[mask %s]; " % ms + nm, "an exception, unchanged", exc or read(ro))

    for ix, sel, cl in dim_selections(n):
        t.cls("nd.varray." + cl)
        what = "v[%s]" % show(ix)
        isint = isinstance(ix, int)
        t.add("transitions")
        r, exc = attempt(t, "nd.FixedVArray.getitem", lambda: a[ix])
        if sel is None:
            if exc is None: t.fail("nd.FixedVArray.getitem.invalid-accepted", ctx + what, "an exception", "none")
        elif isint:
            w = want([base[sel[0]]])[0]
            got = exc or [repr(r[j]) for j in range(len(r))]
            if got != w: t.fail("nd.FixedVArray.getitem.row", ctx + what, w, got)
            elif len(r):
                t.add("transitions")
                r[0] = mk(50)
                M = [list(x) for x in base]; M[sel[0]][0] = 50
                if state("nd.FixedVArray.row.write-through", "r=%s; r[0]=elem" % what, M): r[0] = mk(base[sel[0]][0])
            rr, exc = attempt(t, "nd.FixedVArray.getitem", lambda: ro[ix])
            if exc or rr.writable() is not False: t.fail("nd.FixedVArray.readonly.row-flag", ctx + "ro%s.writable()" % what[1:], False, exc or rr.writable())
            elif len(rr):
                t.add("transitions")
                _, exc = attempt(t, "nd.FixedVArray.readonly", lambda: rr.__setitem__(0, mk(50)))
                if exc is None or read(ro) != want(base): t.fail("nd.FixedVArray.readonly.row-store", ctx + "rr=ro%s; rr[0]=elem" % what[1:], "an exception, unchanged", exc or read(ro))
        else:
            w = want([base[i] for i in sel])
            if exc or len(r) != len(sel) or read(r) != w: t.fail("nd.FixedVArray.getitem.slice", ctx + what, w, exc or read(r))
        if sel is None:
            for nm, f in (("=array", lambda: a.__setitem__(ix, vec([60]))), ("=varray", lambda: a.__setitem__(ix, C(1))), (" size=2", lambda: a.size.__setitem__(ix, 2))):
                t.add("transitions")
                _, exc = attempt(t, "nd.FixedVArray.setitem", f)
                if exc is None: t.fail("nd.FixedVArray.setitem.invalid-accepted", ctx + what + nm, "an exception", "none")
                state("nd.FixedVArray.setitem.invalid-accepted", what + nm, base)
            continue
        # store one array into every selected item: allowed iff its length equals the item's size (checked item by item)
        if sel and len(set(sizes[i] for i in sel)) == 1:
            s = sizes[sel[0]]
            t.add("transitions")
            _, exc = attempt(t, "nd.FixedVArray.setitem", lambda: a.__setitem__(ix, vec([60 + j for j in range(s)])))
            M = [[60 + j for j in range(s)] if i in sel else list(base[i]) for i in range(n)]
            if exc: t.fail("nd.FixedVArray.setitem.array", ctx + what + "=array(len %d)" % s, want(M), exc)
            if state("nd.FixedVArray.setitem.array", what + "=array(len %d)" % s, M) and s: fresh()
        if sel:
            s = sizes[sel[0]] + 1                      # wrong for the first selected item: nothing may be written
            t.add("transitions")
            _, exc = attempt(t, "nd.FixedVArray.setitem", lambda: a.__setitem__(ix, vec([60 + j for j in range(s)])))
            if exc is None: t.fail("nd.FixedVArray.setitem.array.wrong-length", ctx + what + "=array(len %d)" % s, "an exception", read(a))
            state("nd.FixedVArray.setitem.array.wrong-length", what + "=array(len %d)" % s, base)
            t.add("transitions")
            _, exc = attempt(t, "nd.FixedVArray.readonly", lambda: ro.__setitem__(ix, vec([60 + j for j in range(sizes[sel[0]])])))
            if exc is None or read(ro) != want(base): t.fail("nd.FixedVArray.readonly.store", ctx + "ro%s=array" % what[1:], "an exception, unchanged", exc or read(ro))
            t.add("transitions")
            _, exc = attempt(t, "nd.FixedVArray.readonly", lambda: ro.size.__setitem__(ix, 1))
            if exc is None or read(ro) != want(base): t.fail("nd.FixedVArray.readonly.resize", ctx + "ro.size%s=1" % what[1:], "an exception, unchanged", exc or read(ro))
        # V-array source: selected items are replaced by the source's items
        k = len(sel)
        srcM = [[70 + 4 * p + j for j in range((p + 1) % 3)] for p in range(k)]
        t.add("transitions")
        _, exc = attempt(t, "nd.FixedVArray.setitem", lambda: a.__setitem__(ix, build(srcM)))
        M = [list(x) for x in base]
        for p, i in enumerate(sel): M[i] = list(srcM[p])
        if exc: t.fail("nd.FixedVArray.setitem.varray", ctx + what + "=varray(len %d)" % k, want(M), exc)
        if state("nd.FixedVArray.setitem.varray", what + "=varray(len %d)" % k, M) and k: fresh()
        t.add("transitions")
        _, exc = attempt(t, "nd.FixedVArray.setitem", lambda: a.__setitem__(ix, C(k + 1)))
        if exc is None: t.fail("nd.FixedVArray.setitem.varray.wrong-length", ctx + what + "=varray(len %d)" % (k + 1), "an exception", read(a))
        state("nd.FixedVArray.setitem.varray.wrong-length", what + "=varray(len %d)" % (k + 1), base)
        # resize through the size helper
        t.add("transitions")
        _, exc = attempt(t, "nd.FixedVArray.size-helper", lambda: a.size.__setitem__(ix, 1))
        M = [(list(base[i]) + [None])[:1] if i in sel else list(base[i]) for i in range(n)]
        got = read(a)
        okk = exc is None and all(len(got[i]) == len(M[i]) and all(M[i][j] is None or got[i][j] == repr(mk(M[i][j])) for j in range(len(M[i]))) for i in range(n))
        if not okk: t.fail("nd.FixedVArray.size-helper.resize", ctx + "v.size%s=1" % what[1:], "selected items resized to 1 keeping their first element", exc or got)
        if sel: fresh()
    for k in HUGE:
        tag = HTAG[huge_class(k)]
        t.cls("nd.varray.int.huge." + huge_class(k))
        what = "v[%d]" % k
        t.add("transitions", 2)
        r, exc = attempt(t, "nd.FixedVArray.getitem", lambda: a[k])
        if exc is None: t.fail("nd.FixedVArray.getitem." + tag, ctx + what, "an exception", "a row")
        r, exc = attempt(t, "nd.FixedVArray.size-helper", lambda: a.size[k])
        if exc is None: t.fail("nd.FixedVArray.size-helper.getitem." + tag, ctx + "v.size[%d]" % k, "an exception", repr(r))
        last = sizes[-1] if n else 0
        for nm, site, f in (("=array(len %d)" % last, "nd.FixedVArray.setitem." + tag, lambda: a.__setitem__(k, vec([60 + j for j in range(last)]))),
                            ("=varray(len 1)", "nd.FixedVArray.setitem." + tag, lambda: a.__setitem__(k, build([[61]]))),
                            (" size=1", "nd.FixedVArray.size-helper.setitem." + tag, lambda: a.size.__setitem__(k, 1))):
            t.add("transitions")
            _, exc = attempt(t, "nd.FixedVArray.setitem", f)
            if exc is None: t.fail(site, ctx + what + nm, "an exception", read(a))
            state(site, what + nm, base)
    for ml in (n - 1, n, n + 1):
        if ml < 0: continue
        for mask in masks_of(ml):
            m = int_array(mask); ms = "".join(map(str, mask)) or "<empty>"
            t.add("transitions")
            r, exc = attempt(t, "nd.FixedVArray.mask", lambda: a[m])
            if ml != n:
                t.cls("nd.varray.mask-wrong-length")
                if exc is None: t.fail("nd.FixedVArray.mask.wrong-length-accepted", ctx + "v[mask %s]" % ms, "an exception", "none")
                for nm, f in (("=array", lambda: a.__setitem__(m, vec([]))), ("=varray", lambda: a.__setitem__(m, C(ml))), (" size=2", lambda: a.size.__setitem__(m, 2))):
                    t.add("transitions")
                    _, exc = attempt(t, "nd.FixedVArray.mask", f)
                    if exc is None: t.fail("nd.FixedVArray.mask.wrong-length-accepted", ctx + "v[mask %s]%s" % (ms, nm), "an exception", "none")
                    state("nd.FixedVArray.mask.wrong-length-accepted", "v[mask %s]%s" % (ms, nm), base)
                continue
            t.cls("nd.varray.mask")
            sel = [i for i in range(n) if mask[i]]
            w = want([base[i] for i in sel])
            if exc or len(r) != len(sel) or read(r) != w: t.fail("nd.FixedVArray.mask.getitem", ctx + "v[mask %s]" % ms, w, exc or read(r))
            else:
                # every forward slice OF THE MASKED REFERENCE selects the rows the same slice selects on the list of
                # masked rows (a mask with non-adjacent rows makes a fixed-pitch shortcut visible)
                rows_m = [base[i] for i in sel]
                for st in [None] + list(range(-len(sel) - 1, len(sel) + 2)):
                    for sp in [None] + list(range(-len(sel) - 1, len(sel) + 2)):
                        for step in (None, 1, 2):
                            sl = slice(st, sp, step)
                            t.add("transitions")
                            rs, exc2 = attempt(t, "nd.FixedVArray.mask", lambda: r[sl])
                            ws = want(rows_m[sl])
                            if len(rows_m[sl]) >= 2 and any(b - a != 1 for a, b in zip(sel[sl], sel[sl][1:])): t.cls("nd.varray.mask.slice-of-non-adjacent-rows")
                            if exc2 or read(rs) != ws:
                                t.fail("nd.FixedVArray.mask.slice-of-masked-reference", ctx + "v[mask %s][%s:%s:%s]" % (ms, st, sp, step), ws, exc2 or read(rs))
                for p, i in enumerate(sel):
                    if sizes[i]:
                        t.add("transitions")
                        row = r[p]; row[sizes[i] - 1] = mk(50)
                        M = [list(x) for x in base]; M[i][-1] = 50
                        if state("nd.FixedVArray.mask.write-through", "w=v[mask %s]; w[%d][-1]=elem" % (ms, p), M): row[sizes[i] - 1] = mk(base[i][-1])
                        del row
            if not (exc or len(r) != len(sel)):
                masked_size_helper(ms, m, sel)
            # masked V-array store: full-length and compressed sources
            k = len(sel)
            fullM =[[80 + 4 * i + j for j in range((i + 2) % 3)] for i in range(n)]
            t.add("transitions")
            _, exc = attempt(t, "nd.FixedVArray.mask", lambda: a.__setitem__(m, build(fullM)))
            M = [list(fullM[i]) if mask[i] else list(base[i]) for i in range(n)]
            if exc: t.fail("nd.FixedVArray.mask.setitem.varray.full", ctx + "v[mask %s]=varray(len n)" % ms, want(M), exc)
            if state("nd.FixedVArray.mask.setitem.varray.full", "v[mask %s]=varray(len n)" % ms, M) and k: fresh()
            if k != n:
                compM = [[90 + 4 * p + j for j in range((p + 1) % 3)] for p in range(k)]
                t.add("transitions")
                _, exc = attempt(t, "nd.FixedVArray.mask", lambda: a.__setitem__(m, build(compM)))
                M = [list(x) for x in base]
                for p, i in enumerate(sel): M[i] = list(compM[p])
                if exc: t.fail("nd.FixedVArray.mask.setitem.varray.compressed", ctx + "v[mask %s]=varray(len %d)" % (ms, k), want(M), exc)
                if state("nd.FixedVArray.mask.setitem.varray.compressed", "v[mask %s]=varray(len %d)" % (ms, k), M) and k: fresh()
            for ln in sorted({k + 1, n + 1} - {k, n}):
                t.add("transitions")
                _, exc = attempt(t, "nd.FixedVArray.mask", lambda: a.__setitem__(m, C(ln)))
                if exc is None: t.fail("nd.FixedVArray.mask.setitem.varray.wrong-length", ctx + "v[mask %s]=varray(len %d)" % (ms, ln), "an exception", read(a))
                state("nd.FixedVArray.mask.setitem.varray.wrong-length", "v[mask %s]=varray(len %d)" % (ms, ln), base)
            t.add("transitions")
            _, exc = attempt(t, "nd.FixedVArray.mask", lambda: a.size.__setitem__(m, 0))
            M = [[] if mask[i] else list(base[i]) for i in range(n)]
            if exc: t.fail("nd.FixedVArray.mask.size-helper", ctx + "v.size[mask %s]=0" % ms, want(M), exc)
            if state("nd.FixedVArray.mask.size-helper", "v.size[mask %s]=0" % ms, M) and k: fresh()


# ------------------------------------------------------------------------------------------------- StringArray
ALPHA = ["", "a", "b", "ab"]
SN = 3


def string_ops():
    ops = [("set", i, s) for i in range(SN) for s in ALPHA]
    ops += [("slice-from-other-table",), ("masked-scalar",)]
    return ops


def run_strings_item(item, t):
    cname, prefix, depth = item
    C = getattr(imath, cname)
    ops = string_ops()
    orders = set()

    def play(hist):
        a = C(SN); L = [""] * SN; order = [""]
        for op in hist:
            if op[0] == "set":
                a[op[1]] = op[2]; L[op[1]] = op[2]; ss = [op[2]]
            elif op[0] == "slice-from-other-table":
                o = C(2); o[0] = "b"; o[1] = "zz"; a[1:3] = o; L[1:3] = ["b", "zz"]; ss = ["b", "zz"]
            else:
                a[int_array([1, 0, 1])] = "a"; L[0] = "a"; L[2] = "a"; ss = ["a"]
            for s in ss:
                if s not in order: order.append(s)
        return a, L, tuple(order)

    def check(hist):
        try:
            a, L, order = play(hist)
        except Exception as e:
            t.fail("str.store.unexpected-exception", "%s(3) history %s" % (cname, list(hist)), "every store succeeds", "%s: %s" % (type(e).__name__, e)); return False
        orders.add(order)
        t.add("states"); t.add("transitions", 3 + len(ALPHA))
        got = [a[i] for i in range(len(a))]
        hs = "%s(3) history %s" % (cname, list(hist))
        if got != L: t.fail("str.readback", hs, L, got); return False
        for s in ALPHA + ["zz", "never-interned"]:
            e = a == s; ne = a != s
            if [e[i] for i in range(SN)] != [int(x == s) for x in L] or [ne[i] for i in range(SN)] != [int(x != s) for x in L]:
                t.fail("str.compare", hs + " a==%r / a!=%r" % (s, s), [int(x == s) for x in L], ([e[i] for i in range(SN)], [ne[i] for i in range(SN)])); return False
        c = a[slice(None, None, 2)]
        if [c[i] for i in range(len(c))] != L[::2]: t.fail("str.slice-copy", hs + " a[::2]", L[::2], [c[i] for i in range(len(c))]); return False
        v = a[int_array([0, 1, 1])]
        if [v[i] for i in range(len(v))] != L[1:]: t.fail("str.masked-reference", hs + " a[mask 011]", L[1:], [v[i] for i in range(len(v))]); return False
        return True

    def dfs(hist, d):
        if not check(hist): return
        if d == 0: return
        for op in ops: dfs(hist + (op,), d - 1)
    dfs(prefix, depth - len(prefix))
    t.extra = orders


def run_strings(R, thorough):
    depth = 5 if thorough else 4
    if ASAN: depth = 3
    ops = string_ops()
    allorders = set()
    R.declare("str.interning-orders")
    items = [(c, (o1, o2), depth) for c in ("StringArray", "WstringArray") for o1 in ops for o2 in ops]
    items += [(c, (o1,), 1) for c in ("StringArray", "WstringArray") for o1 in ops] + [(c, (), 0) for c in ("StringArray", "WstringArray")]
    ok = fork_map(run_strings_item, items, R, "str.worker.fatal", describe=lambda it: "%s prefix %r" % (it[0], it[1]),
                  on_result=lambda it, t: allorders.update(t.extra or ()))
    R.cls("str.interning-orders", len(allorders))
    R.sample("StringArray(3): every history of <=%d ops from {a[i]=s, i<3, s in %r} + slice store from another table + masked store" % (depth, ALPHA))
    (R.stage_done if ok else R.stage_partial)("StringArray and WstringArray, length 3: all %d^<=%d histories, %d distinct interning orders; read-back, ==/!=, slice copy, masked reference in every state" % (len(ops), depth, len(allorders)))


# ------------------------------------------------------------------------------------------------- driver
def run_any(item, t):
    {"2d": run_2d, "mat": run_matrix, "var": run_varray}[item[0]](item[1:], t)


def run(R, thorough):
    small = ASAN
    c2 = list(A2D) if thorough else ["IntArray2D", "FloatArray2D"]
    cm_ = list(MATS) if thorough else ["IntMatrix", "FloatMatrix"]
    cv = list(VARS) if thorough else ["VIntArray", "VFloatArray"]
    if small: c2, cm_, cv = ["IntArray2D"], ["IntMatrix"], ["VIntArray", "VV2fArray"]
    items = [("2d", c, x, y) for c in c2 for x in range(4) for y in range(4)]
    items += [("mat", c, r, k) for c in cm_ for r in range(4) for k in range(4)]
    items += [("var", c, sz) for c in cv for n in range(4) for sz in itertools.product((0, 1, 2), repeat=n)]
    for d in ("2d", "matrix", "varray"):
        R.declare("nd.%s.int.in-range" % d, "nd.%s.int.out-of-range" % d, "nd.%s.slice.empty" % d, "nd.%s.slice.forward" % d, "nd.%s.slice.zero-step" % d)
    for d in ("2d", "matrix", "varray"):
        R.declare(*["nd.%s.int.huge.%s" % (d, c) for c in ("int-range", "ssize-range", "overflowing")])
    R.declare("nd.2d.mask.nonzero-values", "nd.2d.mask.array1d-full", "nd.2d.mask.array1d-compressed", "nd.2d.mask.array1d-wrong-length")
    R.declare("nd.2d.mask", "nd.2d.mask-wrong-shape", "nd.varray.mask", "nd.varray.mask-wrong-length", "nd.2d.malformed-index", "nd.varray.mask.slice-of-non-adjacent-rows", "nd.matrix.row-store-from-masked-reference")
    R.declare("nd.varray.masked-size-helper.mask-not-a-leading-run", "nd.varray.masked-size-helper.int.out-of-range", "nd.varray.masked-size-helper.selected-rows-differ-from-raw-rows",
              "nd.varray.masked-size-helper.vector-store", "nd.varray.masked-size-helper.mask-store.partial-mask")
    R.declare("nd.varray.masked-reference.unmasked-length-mask", "nd.varray.masked-reference.unmasked-length-mask.position-and-raw-index-disagree",
              "nd.varray.masked-reference.row-store.view-length-mask", "nd.varray.masked-reference.row-store.unmasked-length-mask")
    ok = fork_map(run_any, items, R, "nd.worker.fatal", describe=repr)
    malformed_2d(R)
    msg = ("FixedArray2D %s sizes 0..3x0..3 (one dimension exhaustive: ints -4..4, every forward slice start,stop in {None,-4..4} step in {None,1,2,3}, zero step; other dimension 5 representatives; all masks); "
           "FixedMatrix %s 0..3x0..3 rows; FixedVArray %s lengths 0..3 with every item-size vector over {0,1,2}; malformed 2-D indices in forked children" % (c2, cm_, cv))
    (R.stage_done if ok else R.stage_partial)(msg)
