// Reference functions for the scalar Color3/Color4 and Shear6 bindings, written against ImathColor.h, ImathColorAlgo.h, ImathShear.h.
#include "verifref_common.hpp"
using namespace vr;

template <class C> static C col_from_seq (const bp::object& t)
{
    typedef typename C::BaseType T;
    const long n = long (C::dimensions ());
    if (seqlen (t) != n) throw std::invalid_argument ("sequence of wrong length");
    C c;
    for (long i = 0; i < n; ++i) c[int (i)] = num<T> (t[i]);
    return c;
}

// arithmetic shared by Color3, Color4 (and, with its own tuple length, Shear6)
template <class C> static void color_arith (const Reg& D)
{
    typedef typename C::BaseType T;
    D ("__copy__", +[] (const C& a) { return C (a); });
    D ("__deepcopy__", +[] (const C& a, bp::dict&) { return C (a); });
    D ("__eq__", +[] (C& a, const C& b) { return a == b; });
    D ("__ne__", +[] (C& a, const C& b) { return a != b; });
    D ("__iadd__", +[] (C& a, const C& b) { return C (a += b); });
    D ("__isub__", +[] (C& a, const C& b) { return C (a -= b); });
    D ("__imul__", +[] (C& a, const C& b) { return C (a *= b); });
    D ("__imul__", +[] (C& a, T t) { return C (a *= t); });
    D ("__idiv__", +[] (C& a, const C& b) { return C (a /= b); });
    D ("__idiv__", +[] (C& a, T t) { return C (a /= t); });
    D ("__itruediv__", +[] (C& a, const C& b) { return C (a /= b); });
    D ("__itruediv__", +[] (C& a, T t) { return C (a /= t); });
    D ("__add__", +[] (C& a, const C& b) { return C (a + b); });
    D ("__add__", +[] (C& a, const bp::tuple& t) { return C (a + col_from_seq<C> (t)); });
    D ("__add__", +[] (C& a, T t) { return C (a + C (t)); });
    D ("__radd__", +[] (C& a, const bp::tuple& t) { return C (col_from_seq<C> (t) + a); });
    D ("__radd__", +[] (C& a, T t) { return C (C (t) + a); });
    D ("__sub__", +[] (C& a, const C& b) { return C (a - b); });
    D ("__sub__", +[] (C& a, const bp::tuple& t) { return C (a - col_from_seq<C> (t)); });
    D ("__sub__", +[] (const C& a, T t) { return C (a - C (t)); });
    D ("__rsub__", +[] (C& a, const bp::tuple& t) { return C (col_from_seq<C> (t) - a); });
    D ("__rsub__", +[] (const C& a, T t) { return C (C (t) - a); });
    D ("__neg__", +[] (C& a) { return C (-a); });
    D ("negate", +[] (C& a) { return C (a.negate ()); });
    D ("__mul__", +[] (C& a, const C& b) { return C (a * b); });
    D ("__mul__", +[] (C& a, T t) { return C (a * t); });
    D ("__mul__", +[] (C& a, const bp::tuple& t) { return C (a * col_from_seq<C> (t)); });
    D ("__rmul__", +[] (C& a, T t) { return C (t * a); });
    D ("__rmul__", +[] (C& a, const bp::tuple& t) { return C (col_from_seq<C> (t) * a); });
    D ("__div__", +[] (C& a, const C& b) { return C (a / b); });
    D ("__div__", +[] (C& a, T t) { return C (a / t); });
    D ("__div__", +[] (C& a, const bp::tuple& t) { return C (a / col_from_seq<C> (t)); });
    D ("__truediv__", +[] (C& a, const C& b) { return C (a / b); });
    D ("__truediv__", +[] (C& a, T t) { return C (a / t); });
    D ("__truediv__", +[] (C& a, const bp::tuple& t) { return C (a / col_from_seq<C> (t)); });
    D ("__rdiv__", +[] (C& a, const bp::tuple& t) { return C (col_from_seq<C> (t) / a); });
    D ("__rdiv__", +[] (C& a, T t) { return C (C (t) / a); });
    D ("__rtruediv__", +[] (C& a, const bp::tuple& t) { return C (col_from_seq<C> (t) / a); });
    D ("__rtruediv__", +[] (C& a, T t) { return C (C (t) / a); });
    D ("baseTypeEpsilon", +[] () { return C::baseTypeEpsilon (); });
    D ("baseTypeMax", +[] () { return C::baseTypeMax (); });
    D ("baseTypeLowest", +[] () { return C::baseTypeLowest (); });
    D ("baseTypeSmallest", +[] () { return C::baseTypeSmallest (); });
}

template <class C> static void color_only (const Reg& D)
{
    typedef typename C::BaseType T;
    D ("__init__", +[] (const C& c) { return C (c); });
    D ("__init__", +[] () { return C (T (0)); });
    D ("__init__", +[] (const bp::tuple& t) { return col_from_seq<C> (t); });
    D ("__init__", +[] (const bp::list& t) { return col_from_seq<C> (t); });
    D ("__init__", +[] (float a) { return C (T (a)); });
    D ("__init__", +[] (int a) { return C (T (a)); });
    D ("dimensions", +[] () { return C::dimensions (); });
    D ("hsv2rgb", +[] (C& c) { return C (IMATH_NAMESPACE::hsv2rgb (c)); });
    D ("hsv2rgb", +[] (const bp::tuple& t) { return C (IMATH_NAMESPACE::hsv2rgb (col_from_seq<C> (t))); });
    D ("rgb2hsv", +[] (C& c) { return C (IMATH_NAMESPACE::rgb2hsv (c)); });
    D ("rgb2hsv", +[] (const bp::tuple& t) { return C (IMATH_NAMESPACE::rgb2hsv (col_from_seq<C> (t))); });
    D ("setValue", +[] (C& c, const C& o) { c = o; });
    D ("setValue", +[] (C& c, const bp::tuple& t) { c = col_from_seq<C> (t); });
}

template <class T> static void color3_refs (const char* cls)
{
    typedef Color3<T> C;
    Reg D (cls);
    color_arith<C> (D);
    color_only<C> (D);
    D ("__init__", +[] (float r, float g, float b) { return C (T (r), T (g), T (b)); });
    D ("__init__", +[] (int r, int g, int b) { return C (T (r), T (g), T (b)); });
    D ("__init__", +[] (const Color3<float>& c) { return C (T (c.x), T (c.y), T (c.z)); });
    D ("__init__", +[] (const Color3<unsigned char>& c) { return C (T (c.x), T (c.y), T (c.z)); });
    D ("__init__", +[] (const Vec3<float>& c) { return C (T (c.x), T (c.y), T (c.z)); });
    D ("__init__", +[] (const Vec3<double>& c) { return C (T (c.x), T (c.y), T (c.z)); });
    D ("__init__", +[] (const Vec3<int>& c) { return C (T (c.x), T (c.y), T (c.z)); });
    D ("r", +[] (const C& c) { return c.x; });
    D ("g", +[] (const C& c) { return c.y; });
    D ("b", +[] (const C& c) { return c.z; });
    D ("r", +[] (C& c, T v) { c.x = v; });
    D ("g", +[] (C& c, T v) { c.y = v; });
    D ("b", +[] (C& c, T v) { c.z = v; });
    D ("setValue", +[] (C& c, T r, T g, T b) { c.setValue (r, g, b); });
}

template <class T> static void color4_refs (const char* cls)
{
    typedef Color4<T> C;
    Reg D (cls);
    color_arith<C> (D);
    color_only<C> (D);
    D ("__init__", +[] (float r, float g, float b, float a) { return C (T (r), T (g), T (b), T (a)); });
    D ("__init__", +[] (int r, int g, int b, int a) { return C (T (r), T (g), T (b), T (a)); });
    D ("__init__", +[] (const Color4<float>& c) { return C (T (c.r), T (c.g), T (c.b), T (c.a)); });
    D ("__init__", +[] (const Color4<unsigned char>& c) { return C (T (c.r), T (c.g), T (c.b), T (c.a)); });
    D ("r", +[] (const C& c) { return c.r; });
    D ("g", +[] (const C& c) { return c.g; });
    D ("b", +[] (const C& c) { return c.b; });
    D ("a", +[] (const C& c) { return c.a; });
    D ("r", +[] (C& c, T v) { c.r = v; });
    D ("g", +[] (C& c, T v) { c.g = v; });
    D ("b", +[] (C& c, T v) { c.b = v; });
    D ("a", +[] (C& c, T v) { c.a = v; });
    D ("setValue", +[] (C& c, T r, T g, T b, T a) { c.setValue (r, g, b, a); });
    D ("getValue", +[] (C& c, C& o) { c.getValue (o); });
    D ("__len__", +[] (const C&) { return long (4); });
    D ("__getitem__", +[] (C& c, long i) { return c[int (pyindex (i, 4))]; });
    D ("__setitem__", +[] (C& c, long i, T v) { c[int (pyindex (i, 4))] = v; });
}

template <class S> static S shear_from_seq (const bp::object& t, bool allow3)
{
    typedef typename S::BaseType T;
    if (allow3 && seqlen (t) == 3) return S (num<T> (t[0]), num<T> (t[1]), num<T> (t[2]), T (0), T (0), T (0));
    if (seqlen (t) != 6) throw std::domain_error ("Shear6 expects a sequence of 6 numbers");
    S s;
    for (int i = 0; i < 6; ++i) s[i] = num<T> (t[i]);
    return s;
}

template <class T> static void shear_refs (const char* cls)
{
    typedef Shear6<T> S;
    Reg D (cls);
    D ("__init__", +[] (const S& s) { return S (s); });
    D ("__init__", +[] () { return S (); });
    D ("__init__", +[] (T xy, T xz, T yz) { return S (xy, xz, yz); });
    D ("__init__", +[] (const Vec3<float>& v) { return S (v); });
    D ("__init__", +[] (const Vec3<double>& v) { return S (v); });
    D ("__init__", +[] (const Vec3<int>& v) { return S (v); });
    D ("__init__", +[] (T a, T b, T c, T d, T e, T f) { return S (a, b, c, d, e, f); });
    D ("__init__", +[] (T a) { return S (a, a, a, a, a, a); });
    D ("__init__", +[] (const bp::tuple& t) { return shear_from_seq<S> (t, true); });
    D ("__init__", +[] (const Shear6<float>& s) { return S (s); });
    D ("__init__", +[] (const Shear6<double>& s) { return S (s); });
    D ("__copy__", +[] (const S& a) { return S (a); });
    D ("__deepcopy__", +[] (const S& a, bp::dict&) { return S (a); });
    D ("__eq__", +[] (S& a, const S& b) { return a == b; });
    D ("__ne__", +[] (S& a, const S& b) { return a != b; });
    D ("__iadd__", +[] (S& a, const S& b) { return S (a += b); });
    D ("__isub__", +[] (S& a, const S& b) { return S (a -= b); });
    D ("__imul__", +[] (S& a, const S& b) { return S (a *= b); });
    D ("__imul__", +[] (S& a, T t) { return S (a *= t); });
    D ("__idiv__", +[] (S& a, const S& b) { return S (a /= b); });
    D ("__idiv__", +[] (S& a, T t) { return S (a /= t); });
    D ("__itruediv__", +[] (S& a, const S& b) { return S (a /= b); });
    D ("__itruediv__", +[] (S& a, T t) { return S (a /= t); });
    D ("__add__", +[] (const S& a, const S& b) { return a + b; });
    D ("__add__", +[] (S& a, const bp::tuple& t) { return a + shear_from_seq<S> (t, false); });
    D ("__add__", +[] (S& a, T t) { return a + S (t, t, t, t, t, t); });
    D ("__radd__", +[] (S& a, const bp::tuple& t) { return shear_from_seq<S> (t, false) + a; });
    D ("__radd__", +[] (S& a, T t) { return S (t, t, t, t, t, t) + a; });
    D ("__sub__", +[] (const S& a, const S& b) { return a - b; });
    D ("__sub__", +[] (S& a, const bp::tuple& t) { return a - shear_from_seq<S> (t, false); });
    D ("__sub__", +[] (S& a, T t) { return a - S (t, t, t, t, t, t); });
    D ("__rsub__", +[] (S& a, const bp::tuple& t) { return shear_from_seq<S> (t, false) - a; });
    D ("__rsub__", +[] (S& a, T t) { return S (t, t, t, t, t, t) - a; });
    D ("__neg__", +[] (const S& a) { return -a; });
    D ("negate", +[] (S& a) { return S (a.negate ()); });
    D ("__mul__", +[] (const S& a, const S& b) { return a * b; });
    D ("__mul__", +[] (const S& a, T t) { return a * t; });
    D ("__mul__", +[] (S& a, const bp::tuple& t) { return a * shear_from_seq<S> (t, false); });
    D ("__rmul__", +[] (const S& a, T t) { return t * a; });
    D ("__rmul__", +[] (S& a, const bp::tuple& t) { return shear_from_seq<S> (t, false) * a; });
    D ("__div__", +[] (const S& a, const S& b) { return a / b; });
    D ("__div__", +[] (const S& a, T t) { return a / t; });
    D ("__div__", +[] (S& a, const bp::tuple& t) { return a / shear_from_seq<S> (t, false); });
    D ("__truediv__", +[] (const S& a, const S& b) { return a / b; });
    D ("__truediv__", +[] (const S& a, T t) { return a / t; });
    D ("__truediv__", +[] (S& a, const bp::tuple& t) { return a / shear_from_seq<S> (t, false); });
    D ("__rdiv__", +[] (S& a, T t) { return S (t, t, t, t, t, t) / a; });
    D ("__rdiv__", +[] (S& a, const bp::tuple& t) { return shear_from_seq<S> (t, false) / a; });
    D ("__rtruediv__", +[] (S& a, T t) { return S (t, t, t, t, t, t) / a; });
    D ("__rtruediv__", +[] (S& a, const bp::tuple& t) { return shear_from_seq<S> (t, false) / a; });
    D ("baseTypeEpsilon", +[] () { return S::baseTypeEpsilon (); });
    D ("baseTypeMax", +[] () { return S::baseTypeMax (); });
    D ("baseTypeLowest", +[] () { return S::baseTypeLowest (); });
    D ("baseTypeSmallest", +[] () { return S::baseTypeSmallest (); });
    D ("equalWithAbsError", +[] (S& a, const S& b, T e) { return a.equalWithAbsError (b, e); });
    D ("equalWithRelError", +[] (S& a, const S& b, T e) { return a.equalWithRelError (b, e); });
    D ("getValue", +[] (S& a, S& o) { a.getValue (o); });
    D ("setValue", +[] (S& a, T b, T c, T d, T e, T f, T g) { a.setValue (b, c, d, e, f, g); });
    D ("setValue", +[] (S& a, const S& o) { a.setValue (o); });
    D ("__len__", +[] (S&) { return int (6); });
    D ("__getitem__", +[] (S& a, int i) { return a[i]; });
    D ("__setitem__", +[] (S& a, int i, T v) { if (i < 0 || i > 5) throw std::domain_error ("Index out of range"); a[i] = v; });
}

BOOST_PYTHON_MODULE (verifref_color)
{
    color3_refs<unsigned char> ("Color3c");
    color3_refs<float> ("Color3f");
    color4_refs<unsigned char> ("Color4c");
    color4_refs<float> ("Color4f");
    shear_refs<float> ("Shear6f");
    shear_refs<double> ("Shear6d");
}
