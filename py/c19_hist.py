"""C19 exploration 2: explicit-state BFS over operation histories on one array and the views derived from it.

State  = (contents, and for every live handle: kind, index map into the storage, writable flag).
Handles: the array itself and copy-constructed aliases ('A'), masked references ('M'), element references ('E',
class-type elements only; a reference obtained through a read-only handle is a detached copy).
Model  = a Python list S plus that alias bookkeeping; the writable flag belongs to the *handle* and is inherited
         by what is derived from it at derivation time. A store / in-place operator through a writable handle updates
         S (and is therefore seen through every alias); through a read-only handle it must raise and change nothing;
         an invalid operation (index out of range, wrong source length) must raise and change nothing.
Invariants checked in every reached state, through every handle: len, contents, writable().
BFS: every history is replayed from a fresh array (real objects cannot be snapshotted); states are canonicalised as
(contents, sorted handle descriptors) -- handles with equal descriptors have equal futures -- and each distinct state is
expanded once. A transition that violates the model is reported and its successor is not expanded (no cascades).
"""
import operator, struct
import imath
from c19_common import Tally, fork_map, int_array

N = 3
MASKS = [(1, 0, 1), (0, 1, 1), (1, 0, 1, 1)]          # the last one has the wrong length
MASKS.append((1, 1, 0))                                 # index 3: used for masked-reference creation and live-handle sources only (a[011] = a[110] is the aliasing hazard)
SLICES = [slice(None), slice(None, None, 2), slice(None, None, -1)]
SLN = ["[:]", "[::2]", "[::-1]"]
OPF = {"+=": operator.iadd, "-=": operator.isub, "*=": operator.imul, "/=": operator.itruediv}
MAXH = 4


def f32(x): return struct.unpack("f", struct.pack("f", x))[0]


class IntCfg:
    name = "IntArray"; elems = False
    init = [1, 2, 3]; store = 9
    iops = [(o, r) for o in ("+=", "-=", "*=", "/=") for r in "sam"] + [("+=", "f"), ("-=", "w")]
    @staticmethod
    def mk(v): return v
    @staticmethod
    def key(x): return x
    @staticmethod
    def src(q): return 21 + q
    @staticmethod
    def rs(op): return 2
    @staticmethod
    def rv(q): return 2 + q
    @staticmethod
    def ap(op, x, y):
        if op == "+=": return x + y
        if op == "-=": return x - y
        if op == "*=": return x * y
        q = abs(x) // abs(y)                      # C++ integer division truncates toward zero
        return q if (x >= 0) == (y >= 0) else -q


class FloatCfg(IntCfg):
    name = "FloatArray"
    init = [1.0, 2.0, 3.0]; store = 9.0
    @staticmethod
    def mk(v): return float(v)
    @staticmethod
    def key(x): return x
    @staticmethod
    def src(q): return float(21 + q)
    @staticmethod
    def rs(op): return 2.0
    @staticmethod
    def rv(q): return float(2 + q)
    @staticmethod
    def ap(op, x, y):
        # one IEEE binary32 operation on binary32 operands = the exact result rounded once; computing it in binary64
        # and rounding to binary32 gives the same value (53 >= 2*24+2), so the model is exact, not a tolerance.
        if op == "+=": return f32(x + y)
        if op == "-=": return f32(x - y)
        if op == "*=": return f32(x * y)
        return f32(x / y)


class V3fCfg:
    name = "V3fArray"; elems = True
    init = [(1.0, 2.0, 3.0), (4.0, 5.0, 6.0), (7.0, 8.0, 9.0)]; store = (9.0, 9.0, 9.0)
    iops = [("+=", r) for r in "samfw"] + [("-=", "s"), ("-=", "a")]
    @staticmethod
    def mk(v): return imath.V3f(*v)
    @staticmethod
    def key(x): return (x.x, x.y, x.z)
    @staticmethod
    def src(q): return (21.0 + q, 0.0, 1.0)
    @staticmethod
    def rs(op): return (1.0, 2.0, 3.0)
    @staticmethod
    def rv(q): return (2.0 + q, 1.0, 0.0)
    @staticmethod
    def ap(op, x, y):
        return tuple(f32(a + b) for a, b in zip(x, y)) if op == "+=" else tuple(f32(a - b) for a, b in zip(x, y))


CFGS = {c.name: c for c in (IntCfg, FloatCfg, V3fCfg)}
HK = {"A": "array", "M": "masked-reference", "E": "element-reference"}


class State:
    """S: contents; H: list of (kind, idx, writable, detached_value)."""
    __slots__ = ("S", "H")

    def __init__(self, S, H): self.S = S; self.H = H
    def copy(self): return State(list(self.S), list(self.H))
    def key(self): return (tuple(self.S), tuple(sorted(self.H, key=repr)))


def build(cfg, arrvals):
    a = getattr(imath, cfg.name)(len(arrvals))
    for i, v in enumerate(arrvals): a[i] = cfg.mk(v)
    return a


def ops_from(cfg, st):
    out = []
    for h, (kind, idx, w, det) in enumerate(st.H):
        if kind == "E":
            out.append(("eset", h)); continue
        ln = len(idx)
        for i in (0, -1, ln): out.append(("set", h, i))
        for sk in range(len(SLICES)):
            out.append(("sets", h, sk)); out.append(("seta", h, sk, 0))
        out.append(("seta", h, 0, 1))
        if kind == "A":
            for mk in range(len(MASKS)):
                if mk < 3:
                    if len(MASKS[mk]) == N:
                        for s in "sfcw": out.append(("mset", h, mk, s))
                    else:
                        out.append(("mset", h, mk, "s"))
                if len(st.H) < MAXH: out.append(("view", h, mk))
        elif ln != N and ln > 1:
            out.append(("vmset", h))
        if len(st.H) < MAXH:
            out.append(("copy", h))
            if cfg.elems:
                out.append(("elem", h, 0)); out.append(("elem", h, -1))
        if w: out.append(("ro", h))
        for o, r in cfg.iops:
            if r == "f" and kind != "M": continue
            out.append(("iop", h, o, r))
        # sources that are LIVE HANDLES of the same storage (the array, an alias, a masked reference): a Python list reads
        # the whole right-hand side before it stores
        for h2, (k2, idx2, w2, det2) in enumerate(st.H):
            if k2 == "E": continue
            for sk in (0, 2): out.append(("setah", h, sk, h2))
            if kind == "A":
                for mk in range(len(MASKS)): out.append(("mseth", h, mk, h2))
            if kind == "M" and ln != N and len(idx2) == N: hz = hazard(idx, [idx2[j] for j in idx])    # rhs of the unmasked length: element q pairs with rhs[idx[q]]
            else: hz = len(idx2) == ln and hazard(idx, idx2)
            if not hz:
                for o in ("+=", "-="): out.append(("ioph", h, o, h2))
    return out


def hazard(idx, idx2):
    """x op= y walks the elements in an unspecified order (possibly in parallel); the result is defined whenever no element
    is read from a position that the operation also writes at a different step."""
    dst = set(idx)
    return any(b != a and b in dst for a, b in zip(idx, idx2))


def model_apply(cfg, st, op):
    """-> (expect, newstate): expect True = must succeed, False = must raise and change nothing."""
    ns = st.copy(); S = ns.S
    kind, idx, w, det = st.H[op[1]]
    ln = len(idx)
    t = op[0]
    if t == "eset":
        if det is None:
            v = S[idx[0]]; S[idx[0]] = (77.0,) + tuple(v[1:])
        else:
            ns.H[op[1]] = (kind, idx, w, (77.0,) + tuple(det[1:]))
        return True, ns
    if t == "set":
        i = op[2]
        if not (-ln <= i < ln) or not w: return False, st
        S[idx[i]] = cfg.store; return True, ns
    if t == "sets":
        if not w: return False, st
        for q in range(*SLICES[op[2]].indices(ln)): S[idx[q]] = cfg.store
        return True, ns
    if t == "seta":
        if op[3] != 0 or not w: return False, st
        for j, q in enumerate(range(*SLICES[op[2]].indices(ln))): S[idx[q]] = cfg.src(j)
        return True, ns
    if t == "mset":
        m = MASKS[op[2]]
        if len(m) != ln or not w or op[3] == "w": return False, st
        sel = [q for q in range(ln) if m[q]]
        for j, q in enumerate(sel):
            S[idx[q]] = cfg.store if op[3] == "s" else (cfg.src(q) if op[3] == "f" else cfg.src(j))
        return True, ns
    if t == "vmset":
        if not w: return False, st
        S[idx[0]] = cfg.store; return True, ns
    if t == "view":
        m = MASKS[op[2]]
        if len(m) != ln: return False, st
        ns.H.append(("M", tuple(idx[q] for q in range(ln) if m[q]), w, None)); return True, ns
    if t == "copy":
        ns.H.append((kind, idx, w, None)); return True, ns
    if t == "elem":
        i = op[2]
        if w: ns.H.append(("E", (idx[i],), True, None))
        else: ns.H.append(("E", (), False, S[idx[i]]))
        return True, ns
    if t == "ro":
        ns.H[op[1]] = (kind, idx, False, det); return True, ns
    if t == "setah":
        idx2 = st.H[op[3]][1]
        tgt = [idx[q] for q in range(*SLICES[op[2]].indices(ln))]
        if not w or len(idx2) != len(tgt): return False, st
        vals = [S[j] for j in idx2]
        for j, v in zip(tgt, vals): S[j] = v
        return True, ns
    if t == "mseth":
        m = MASKS[op[2]]; idx2 = st.H[op[3]][1]
        sel = [q for q in range(ln) if m[q]]
        if len(m) != ln or not w or len(idx2) not in (ln, len(sel)): return False, st
        vals = [S[j] for j in idx2]
        for j, q in enumerate(sel): S[idx[q]] = vals[q] if len(idx2) == ln else vals[j]
        return True, ns
    if t == "ioph":
        idx2 = st.H[op[3]][1]
        vals = [S[j] for j in idx2]
        if w and kind == "M" and ln != N and len(idx2) == N:
            # a masked reference also accepts a right-hand side of its UNMASKED length (existing op "array(unmasked len)"):
            # element q combines with rhs[idx[q]]
            if any(idx2[idx[q]] != idx[q] and idx2[idx[q]] in idx for q in range(ln)): raise AssertionError("hazard not filtered")
            for q in range(ln): S[idx[q]] = cfg.ap(op[2], S[idx[q]], vals[idx[q]])
            return True, ns
        if not w or len(idx2) != ln: return False, st
        for q in range(ln): S[idx[q]] = cfg.ap(op[2], S[idx[q]], vals[q])
        return True, ns
    if t == "iop":
        o, r = op[2], op[3]
        if r == "w" or not w: return False, st
        for q in range(ln):
            y = cfg.rs(o) if r == "s" else (cfg.rv(idx[q]) if r == "f" else cfg.rv(q))
            S[idx[q]] = cfg.ap(o, S[idx[q]], y)
        return True, ns
    raise AssertionError(op)


def real_apply(cfg, real, st, op):
    """Apply op to the real handles (st = model state *before* the op). -> exception type name or None."""
    h = op[1]; x = real[h]; t = op[0]
    kind, idx, w, det = st.H[h]; ln = len(idx)
    try:
        if t == "eset": x.x = 77.0
        elif t == "set": x[op[2]] = cfg.mk(cfg.store)
        elif t == "sets": x[SLICES[op[2]]] = cfg.mk(cfg.store)
        elif t == "seta":
            k = len(range(*SLICES[op[2]].indices(ln))) + op[3]
            x[SLICES[op[2]]] = build(cfg, [cfg.src(j) for j in range(k)])
        elif t == "mset":
            m = MASKS[op[2]]; cnt = sum(m)
            if op[3] == "s": v = cfg.mk(cfg.store)
            elif op[3] == "f": v = build(cfg, [cfg.src(q) for q in range(ln)])
            elif op[3] == "c": v = build(cfg, [cfg.src(j) for j in range(cnt)])
            else: v = build(cfg, [cfg.src(j) for j in range(ln + 1)])
            x[int_array(m)] = v
        elif t == "setah": x[SLICES[op[2]]] = real[op[3]]
        elif t == "mseth": x[int_array(MASKS[op[2]])] = real[op[3]]
        elif t == "ioph": real[h] = OPF[op[2]](x, real[op[3]])
        elif t == "vmset": x[int_array([1] + [0] * (ln - 1))] = cfg.mk(cfg.store)
        elif t == "view": real.append(x[int_array(MASKS[op[2]])])
        elif t == "copy": real.append(type(x)(x))
        elif t == "elem": real.append(x[op[2]])
        elif t == "ro": x.makeReadOnly()
        elif t == "iop":
            o, r = op[2], op[3]
            if r == "s": rhs = cfg.mk(cfg.rs(o))
            elif r == "a": rhs = build(cfg, [cfg.rv(q) for q in range(ln)])
            elif r == "f": rhs = build(cfg, [cfg.rv(q) for q in range(N)])
            elif r == "w": rhs = build(cfg, [cfg.rv(q) for q in range(N + 1)])
            else:                                   # masked right-hand side selecting ln elements rv(0..ln-1)
                big = build(cfg, [cfg.rv(q // 2) for q in range(2 * ln)])
                rhs = big[int_array([1, 0] * ln)]
            real[h] = OPF[o](x, rhs)                # `x op= rhs` rebinds the name to what the operator returns
        else: raise AssertionError(op)
    except Exception as e:
        nm = type(e).__name__
        return "ArgumentError!" if nm == "ArgumentError" else nm
    return None


def observe(cfg, real, st):
    """Return the list of differences between what every live handle shows and the model."""
    diffs = []
    for h, (kind, idx, w, det) in enumerate(st.H):
        x = real[h]
        if kind == "E":
            want = st.S[idx[0]] if det is None else det
            if cfg.key(x) != want: diffs.append("handle %d (element-reference) reads %r, model %r" % (h, cfg.key(x), want))
            continue
        if len(x) != len(idx): diffs.append("handle %d (%s) len %d, model %d" % (h, HK[kind], len(x), len(idx))); continue
        got = [cfg.key(x[q]) for q in range(len(idx))]
        want = [st.S[j] for j in idx]
        if got != want: diffs.append("handle %d (%s) reads %r, model %r" % (h, HK[kind], got, want))
        if x.writable() != w: diffs.append("handle %d (%s) writable()=%r, model %r" % (h, HK[kind], x.writable(), w))
    return diffs


def opname(st, op):
    kind = st.H[op[1]][0]
    t = op[0]; hs = "h%d<%s%s>" % (op[1], HK[kind], "" if st.H[op[1]][2] else ",read-only")
    if t == "set": return "%s[%d]=elem" % (hs, op[2])
    if t == "sets": return "%s%s=elem" % (hs, SLN[op[2]])
    if t == "seta": return "%s%s=array(len sel%+d)" % (hs, SLN[op[2]], op[3])
    if t == "mset": return "%s[mask %s]=%s" % (hs, "".join(map(str, MASKS[op[2]])), {"s": "elem", "f": "array(full)", "c": "array(compressed)", "w": "array(wrong len)"}[op[3]])
    if t == "setah": return "%s%s=h%d" % (hs, SLN[op[2]], op[3])
    if t == "mseth": return "%s[mask %s]=h%d" % (hs, "".join(map(str, MASKS[op[2]])), op[3])
    if t == "ioph": return "%s %s h%d" % (hs, op[2], op[3])
    if t == "vmset": return "%s[mask 10..]=elem" % hs
    if t == "view": return "new=%s[mask %s]" % (hs, "".join(map(str, MASKS[op[2]])))
    if t == "copy": return "new=Array(%s)" % hs
    if t == "elem": return "new=%s[%d] (element reference)" % (hs, op[2])
    if t == "eset": return "%s.x=77" % hs
    if t == "ro": return "%s.makeReadOnly()" % hs
    if t == "iop": return "%s %s %s" % (hs, op[2], {"s": "scalar", "a": "array", "m": "masked array", "f": "array(unmasked len)", "w": "array(wrong len)"}[op[3]])
    return repr(op)


OPKIND = {"setah": "setitem-from-live-handle", "mseth": "masked-store-from-live-handle", "ioph": "inplace-op-from-live-handle", "set": "setitem", "sets": "setitem", "seta": "setitem", "mset": "masked-store", "vmset": "masked-store-through-masked-reference",
          "view": "masked-reference-creation", "copy": "copy-construction", "elem": "element-reference-creation",
          "eset": "element-write", "ro": "makeReadOnly", "iop": "inplace-op"}


def replay(cfg, hist):
    st = State(list(cfg.init), [("A", tuple(range(N)), True, None)])
    real = [build(cfg, cfg.init)]
    for op in hist:
        exp, ns = model_apply(cfg, st, op)
        real_apply(cfg, real, st, op)
        st = ns
    return st, real


def expand_chunk(item, t):
    cfgname, hists, last = item
    cfg = CFGS[cfgname]
    succ = {}
    for hist in hists:
        st, real = replay(cfg, hist)
        t.add("states")
        # invariants in the state itself (it was reached by a transition that already passed, so this re-checks the replay)
        d = observe(cfg, real, st)
        if d:
            t.fail("hist.replay-nondeterministic", "%s %s" % (cfgname, " ; ".join(map(repr, hist))), "same state as when first reached", d[:2]); continue
        # ifelse never changes anything and reads through the handle (read-only receivers are covered exhaustively by exploration 1)
        for h, (kind, idx, w, det) in enumerate(st.H):
            if kind == "E" or not w: continue
            ln = len(idx)
            if ln == 0: continue
            m = [1] + [0] * (ln - 1)
            t.add("transitions")
            try:
                r = real[h].ifelse(int_array(m), cfg.mk(cfg.store))
                got = [cfg.key(r[q]) for q in range(len(r))]
            except Exception as e:
                got = type(e).__name__
            want = [st.S[idx[0]]] + [cfg.store] * (ln - 1)
            if got != want:
                t.fail("hist.ifelse", "%s after %s: h%d.ifelse(10.., elem)" % (cfgname, " ; ".join(map(repr, hist)), h), want, got)
        dirty = False
        for op in ops_from(cfg, st):
            if dirty:
                st, real = replay(cfg, hist); dirty = False
            exp, ns = model_apply(cfg, st, op)
            kind, idx, w, det = st.H[op[1]]
            t.add("transitions")
            ro = kind != "E" and not w
            t.cls("hist.%s.%s" % (OPKIND[op[0]], "expected-success" if exp else ("through-read-only" if ro else "expected-rejection")))
            exc = real_apply(cfg, real, st, op)
            d = observe(cfg, real, ns)
            where = lambda: "%s start=%r ; history: %s ; then: %s" % (cfgname, cfg.init, " ; ".join(opname_hist(cfg, hist)) or "<none>", opname(st, op))
            ok = True
            if exc == "ArgumentError!":
                t.fail("hist.harness.argument-error", where(), "a registered overload", exc); ok = False
            elif exp and exc is not None and op[0] == "vmset" and not observe(cfg, real, st):
                # refusing a mask store through a masked reference (as the bindings document for array sources) is a
                # legitimate outcome: nothing written, nothing wrong
                t.cls("hist.masked-store-through-masked-reference.refused"); d = []; ns = st
                exp = False
            elif exp and exc is not None:
                t.fail("hist.%s.unexpected-exception" % OPKIND[op[0]], where(), "success", exc); ok = False
            elif not exp and (exc is None or d):
                got = ("no exception" if exc is None else "raised " + exc) + ("; " + "; ".join(d[:2]) if d else "; state unchanged")
                if ro:
                    t.fail("readonly.%s.%s" % (HK[kind], OPKIND[op[0]]), where(), "an exception and nothing changed (the handle is read-only)", got)
                elif exc is None:
                    t.fail("hist.%s.accepted-invalid" % OPKIND[op[0]], where(), "an exception and nothing changed", got)
                else:
                    t.fail("hist.%s.failed-op-changed-state" % OPKIND[op[0]], where(), "an exception and nothing changed", got)
                ok = False
            elif d:
                site = "hist.%s.wrong-state" % OPKIND[op[0]]
                if op[0] == "vmset":
                    # narrow site for one recognisable symptom: the mask values were ignored and *every* element of the
                    # masked reference was written; any other wrong outcome of this operation keeps the generic site
                    alt = st.copy()
                    for j in idx: alt.S[j] = cfg.store
                    if not observe(cfg, real, alt): site = "masked-reference.masked-scalar-store.mask-ignored"
                t.fail(site, where(), "state = model", "; ".join(d[:2])); ok = False
            changed = exp or exc is None or bool(d)
            if changed:
                dirty = True
                if ok and not last:
                    k = ns.key()
                    if k not in succ: succ[k] = hist + (op,)
                elif ok and last:
                    succ[ns.key()] = None
    t.extra = succ


def opname_hist(cfg, hist):
    st = State(list(cfg.init), [("A", tuple(range(N)), True, None)])
    out = []
    for op in hist:
        out.append(opname(st, op))
        st = model_apply(cfg, st, op)[1]
    return out


def bfs(R, cfgname, depth):
    seen = {}
    st0 = State(list(CFGS[cfgname].init), [("A", tuple(range(N)), True, None)])
    seen[st0.key()] = ()
    frontier = [()]
    complete = True
    per_depth = []
    for d in range(depth):
        last = d == depth - 1
        chunk = 8 if len(frontier) < 2000 else 64
        items = [(cfgname, frontier[i:i + chunk], last) for i in range(0, len(frontier), chunk)]
        new = {}

        def got(item, t):
            for k, h in (t.extra or {}).items():
                if k not in seen and k not in new: new[k] = h
        ok = fork_map(expand_chunk, items, R, "hist.worker.fatal",
                      describe=lambda it: "%s histories %r.." % (it[0], it[1][0]), on_result=got)
        per_depth.append(len(frontier))
        if not ok: complete = False; break
        if last:
            R.add("states", len(new))             # distinct states first reached at the final depth (checked on arrival, not expanded)
            per_depth.append(len(new))
        else:
            seen.update(new)
            frontier = [new[k] for k in sorted(new, key=repr)]
    return complete, per_depth


def run(R, thorough):
    from c19_common import ASAN
    plan = [("IntArray", 5), ("V3fArray", 4), ("FloatArray", 4)] if thorough else [("IntArray", 4), ("V3fArray", 3)]
    if ASAN: plan = [("IntArray", 3), ("V3fArray", 2)]
    maxd = max(d for _, d in plan)
    for k in OPKIND.values():
        R.declare("hist.%s.expected-success" % k)
        if k in ("setitem", "masked-store", "inplace-op", "setitem-from-live-handle", "masked-store-from-live-handle", "inplace-op-from-live-handle"):
            R.declare("hist.%s.expected-rejection" % k, "hist.%s.through-read-only" % k)
        if k == "masked-reference-creation": R.declare("hist.%s.expected-rejection" % k)
        if k == "masked-store-through-masked-reference" and maxd >= 3: R.declare("hist.%s.through-read-only" % k)
    done = []
    allok = True
    for name, depth in plan:
        ok, per = bfs(R, name, depth)
        allok = allok and ok
        done.append("%s depth %d (distinct states per depth %s)" % (name, depth, per))
        if not ok: break
    R.sample("IntArray [1,2,3]: h0.makeReadOnly() ; h1=h0[mask 101] ; h1 += scalar  -> must raise, contents unchanged through every handle")
    R.sample("V3fArray: h1=h0[mask 011] ; e=h1[-1] (element reference) ; e.x=77 -> h0[2].x == 77 ; after h0.makeReadOnly(), h0[2] is a detached copy")
    msg = "BFS over operation histories, array length 3, <= %d live handles: %s" % (MAXH, "; ".join(done))
    (R.stage_done if allok else R.stage_partial)(msg)
