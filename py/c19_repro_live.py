"""Stand-alone reproducers for the four C19 defects found by the strengthened explorer (run with the built imath module:
   python3 -c "import sys; sys.path.insert(0,'tools'); import pybuild,subprocess; b=pybuild.build(); subprocess.run([pybuild.PY,'py/c19_repro_live.py'],env=pybuild.env_for(b))")"""
import gc, weakref
import imath


def ia(v):
    m = imath.IntArray(len(v))
    for i, x in enumerate(v): m[i] = x
    return m


def attempt(f):
    try: f(); return "no exception"
    except BaseException as e: return "%s: %s" % (type(e).__name__, str(e)[:48])


print("D1  component view of a masked reference ignores the mask")
a = imath.V3fArray(3)
for i in range(3): a[i] = imath.V3f(10 * i + 1, 10 * i + 2, 10 * i + 3)
v = a[ia([1, 0, 1])]
print("    v = a[mask 101]; list(v.x) =", list(v.x), "  (selected elements' x: [1.0, 21.0])")
v.x[1] = 99
print("    v.x[1] = 99; list(a.x) =", list(a.x), "  (want [1.0, 11.0, 99.0]: a[1] is not selected)")

print("D2  masked store whose source is a masked reference of the target reads overwritten elements")
a = ia([1, 2, 3]); a[ia([0, 1, 1])] = a[ia([1, 1, 0])]
L = [1, 2, 3]; L[1:3] = L[0:2]
print("    IntArray    a[mask 011] = a[mask 110] ->", list(a), "  list: L[1:3] = L[0:2] ->", L)
s = imath.StringArray(3); s[0] = "a"; s[1] = "b"; s[2] = "c"; s[ia([0, 1, 1])] = s[ia([1, 1, 0])]
print("    StringArray same store                ->", list(s), "  (want ['a', 'a', 'b'])")
V = imath.VIntArray(3)
for i in range(3): V.size[i] = i + 1
for i in range(3):
    for j in range(i + 1): V[i][j] = i + 1
V[1:3] = V[ia([1, 1, 0])]
print("    VIntArray   v[1:3] = v[mask 110]      ->", [list(V[i]) for i in range(3)], "  (want [[1], [1], [2, 2]])")

print("D3  an integer index that does not fit Py_ssize_t is stored at a[-1] before the error surfaces")
for k in (2**63, -2**63 - 1):
    a = ia([1, 2, 3]); r = attempt(lambda: a.__setitem__(k, 9))
    print("    a[%d] = 9 -> %s ; a = %s  (want an exception and [1, 2, 3])" % (k, r, list(a)))
m = imath.IntMatrix(2, 1); m[0][0] = 1; m[1][0] = 2
r = attempt(lambda: m.__setitem__(2**32, 7))
print("    IntMatrix(2,1): m[2**32] = 7 -> %s ; m = %s  (row index truncated to int: want IndexError)" % (r, [list(m[i]) for i in range(2)]))

print("D4  component view of a FixedVArray row does not keep the row (and the V-array) alive")
V = imath.VV2fArray(2); V.size[0] = 2
row = V[0]; x = row.x
w = weakref.ref(V)
del V, row; gc.collect()
print("    V=VV2fArray(2); row=V[0]; x=row.x; del V,row -> V-array alive while x is reachable:", w() is not None,
      "" if w() is not None else " (x now points into freed storage)")
