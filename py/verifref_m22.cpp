#include "verifref_matrix.hpp"
BOOST_PYTHON_MODULE (verifref_m22)
{
    vr::m22_refs<float> ("M22f");
    vr::m22_refs<double> ("M22d");
}
