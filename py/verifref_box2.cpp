#include "verifref_box.hpp"
BOOST_PYTHON_MODULE (verifref_box2)
{
    vr::box2_refs<short> ("Box2s");
    vr::box2_refs<int> ("Box2i");
    vr::box2_refs<int64_t> ("Box2i64");
    vr::box2_refs<float> ("Box2f");
    vr::box2_refs<double> ("Box2d");
}
