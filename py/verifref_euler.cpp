// Reference functions for the scalar Euler bindings, written against ImathEuler.h.
// The python enums Order / Axis / InputLayout are the Euler<float> ones for both Eulerf and Eulerd.
#include "verifref_common.hpp"
using namespace vr;

template <class T> static void euler_refs (const char* cls)
{
    typedef Euler<T> E;
    typedef Vec3<T> V;
    typedef Eulerf::Order FO;
    typedef Eulerf::InputLayout FL;
    typedef typename E::Order O;
    typedef typename E::InputLayout L;
    Reg D (cls);
    D ("__init__", +[] (const E& e) { return E (e); });
    D ("__init__", +[] () { return E (); });
    D ("__init__", +[] (const V& v, FO o, FL l) { return E (v, O (int (o)), L (int (l))); });
    D ("__init__", +[] (const V& v) { return E (v); });
    D ("__init__", +[] (const V& v, int o) { return E (v, O (o)); });
    D ("__init__", +[] (const E& e, int o) { return E (e, O (o)); });
    D ("__init__", +[] (const E& e, int o, int l) { return E (e, O (o), L (l)); });
    D ("__init__", +[] (T i, T j, T k, FO o, FL l) { return E (i, j, k, O (int (o)), L (int (l))); });
    D ("__init__", +[] (T i, T j, T k) { return E (i, j, k); });
    D ("__init__", +[] (T i, T j, T k, int o) { return E (i, j, k, O (o)); });
    D ("__init__", +[] (const Matrix33<T>& m, FO o) { return E (m, O (int (o))); });
    D ("__init__", +[] (const Matrix33<T>& m) { return E (m); });
    D ("__init__", +[] (const Matrix33<T>& m, int o) { return E (m, O (o)); });
    D ("__init__", +[] (const Matrix44<T>& m, FO o) { return E (m, O (int (o))); });
    D ("__init__", +[] (const Matrix44<T>& m) { return E (m); });
    D ("__init__", +[] (const Matrix44<T>& m, int o) { return E (m, O (o)); });
    D ("__init__", +[] (FO o) { return E (O (int (o))); });
    D ("__init__", +[] (int o) { return E (O (o)); });
    D ("__init__", +[] (const Quat<T>& q, FO o) { E e = E (O (int (o))); e.extract (q); return e; });
    D ("__init__", +[] (const Quat<T>& q) { E e; e.extract (q); return e; });
    D ("__init__", +[] (const Quat<T>& q, int o) { E e = E (O (o)); e.extract (q); return e; });
    // Euler of the other precision: the library's only path is assignment of the angles (Euler<T>::operator= (Vec3<T>))
    D ("__init__", +[] (const Euler<float>& o) { E e; e = o; return e; });
    D ("__init__", +[] (const Euler<double>& o) { E e; e = o; return e; });
    D ("__copy__", +[] (const E& e) { return E (e); });
    D ("__deepcopy__", +[] (const E& e, bp::dict&) { return E (e); });
    D ("angleOrder", +[] (E& e) { int i, j, k; e.angleOrder (i, j, k); return Vec3<int> (i, j, k); });
    D ("frameStatic", +[] (E& e) { return e.frameStatic (); });
    D ("initialAxis", +[] (E& e) { return e.initialAxis (); });
    D ("initialRepeated", +[] (E& e) { return e.initialRepeated (); });
    D ("parityEven", +[] (E& e) { return e.parityEven (); });
    D ("order", +[] (E& e) { return e.order (); });
    D ("makeNear", +[] (E& e, E& t) { e.makeNear (t); });
    D ("setOrder", +[] (E& e, FO o) { e.setOrder (O (int (o))); });
    D ("set", +[] (E& e, Eulerf::Axis a, int relative, int parityEven, int firstRepeats) {
        e.set (typename E::Axis (int (a)), relative, parityEven, firstRepeats);
    });
    D ("setXYZVector", +[] (E& e, const V& v) { e.setXYZVector (v); });
    D ("setXYZVector", +[] (E& e, const bp::tuple& t) { e.setXYZVector (from_seq<V> (t)); });
    D ("extract", +[] (E& e, const Matrix33<T>& m) { e.extract (m); });
    D ("extract", +[] (E& e, const Matrix44<T>& m) { e.extract (m); });
    D ("extract", +[] (E& e, const Quat<T>& q) { e.extract (q); });
    D ("toMatrix33", +[] (E& e) { return e.toMatrix33 (); });
    D ("toMatrix44", +[] (E& e) { return e.toMatrix44 (); });
    D ("toQuat", +[] (E& e) { return e.toQuat (); });
    D ("toXYZVector", +[] (E& e) { return e.toXYZVector (); });
    // equality of two Eulers: same angles and same order
    D ("__eq__", +[] (const E& a, const E& b) { return Vec3<T> (a) == Vec3<T> (b) && a.order () == b.order (); });
    D ("__ne__", +[] (const E& a, const E& b) { return !(Vec3<T> (a) == Vec3<T> (b) && a.order () == b.order ()); });
}

BOOST_PYTHON_MODULE (verifref_euler)
{
    euler_refs<float> ("Eulerf");
    euler_refs<double> ("Eulerd");
}
