#!/usr/bin/env python3
"""C19 explorer: PyImath arrays index like Python sequences, honour read-only protection, keep views valid
in any release order, match nested lists (2-D / matrix / V-array / strings) and expose an exact, rejecting
buffer interface.  Five bounded-exhaustive explorations (DESIGN.md C19); no sampling anywhere.

Runs under /usr/bin/python3.11 with the freshly built `imath` module (tools/py_driver.py). When the
AddressSanitizer runtime is preloaded (thorough-tier variant) the same explorations run with the quick
bounds: that pass exists to turn silent out-of-bounds / use-after-free accesses into fatal, observed outcomes.
"""
import sys, os, time

sys.path.insert(0, os.path.dirname(os.path.abspath(__file__)))
from vfreport import Report


def ensure_cxx_runtime_preloaded():
    """The driver preloads libasan into a stock CPython that does not link libstdc++. ASan's __cxa_throw interceptor then
    finds no real __cxa_throw at start-up and aborts ("CHECK failed ... real___cxa_throw != 0") on *every* C++ exception the
    bindings throw (IndexError, ValueError, ...). Preloading libstdc++ next to libasan fixes that; re-exec once if needed."""
    pre = os.environ.get("LD_PRELOAD", "")
    if "libasan" in pre and "libstdc++" not in pre:
        import subprocess
        lib = subprocess.check_output(["gcc", "-print-file-name=libstdc++.so.6"], text=True,
                                      env={k: v for k, v in os.environ.items() if k != "LD_PRELOAD"}).strip()
        env = dict(os.environ, LD_PRELOAD=pre + ":" + os.path.realpath(lib))
        os.execve(sys.executable, [sys.executable] + sys.argv, env)


def main():
    ensure_cxx_runtime_preloaded()
    global cm
    import c19_common as cm
    R = Report("C19").parse(sys.argv)
    thorough = R.thorough() and not cm.ASAN
    R.note("asan", cm.ASAN)
    R.note("workers", cm.JOBS)
    R.assume("CPython 3.11 + Boost.Python 1.83 as built by tools/pybuild.py; element values are small integers, exact in every component type")
    R.assume("elements are observed through repr() of the value returned by integer __getitem__")
    if cm.ASAN:
        R.assume("ASan pass: quick bounds; a sanitizer report aborts the forked case and is recorded as a *.fatal violation")

    import c19_index, c19_hist, c19_own, c19_nd, c19_buf, c19_comp, c19_alias, c19_ro

    # ---- 1. indexing ---------------------------------------------------------------------------
    if R.stage("index"):
        names = cm.all_1d_classes() if thorough else cm.QUICK_CLASSES
        names = list(names) + (cm.VIEW_CLASSES if thorough else cm.VIEW_CLASSES[:4])   # strided component views
        R.declare(*c19_index.CLASSES)
        ok = cm.fork_map(c19_index.run_item, c19_index.items(names), R, "index.worker.fatal",
                         describe=lambda it: "%s n=%d" % it)
        msg = ("%d classes x lengths 0..5 x {15 int indices + 14 of magnitude 2^31..2^64, 16x16x8 slices + 9x9x11 with bounds/steps of magnitude 2^31..2^64, all 0/1 masks of length n-1,n,n+1, "
               "all masks of length n with non-zero entries {2,-1,INT_MIN,3} and as strided / masked / read-only mask arrays} x get/set/ifelse/masked-ref, writable + read-only twin" % len(names))
        (R.stage_done if ok else R.stage_partial)(msg)

    # ---- 1b. component views of arrays and of masked references ---------------------------------
    if R.stage("components"):
        c19_comp.run(R, thorough)

    # ---- 1c. stores / in-place operators whose source aliases the target -------------------------
    if R.stage("aliasing"):
        c19_alias.run(R, thorough)

    # ---- 2. histories --------------------------------------------------------------------------
    if R.stage("histories"):
        c19_hist.run(R, thorough)

    # ---- 2b. every member x every argument tuple on read-only receivers ---------------------------
    if R.stage("readonly-members"):
        c19_ro.run(R, thorough)

    # ---- 3. ownership --------------------------------------------------------------------------
    if R.stage("ownership"):
        c19_own.run(R, thorough)

    # ---- 4. 2-D, matrix, V-array, strings ------------------------------------------------------
    if R.stage("nested"):
        c19_nd.run(R, thorough)
    if R.stage("strings"):
        c19_nd.run_strings(R, thorough)

    # ---- 5. buffers ----------------------------------------------------------------------------
    if R.stage("buffers"):
        c19_buf.run(R, thorough)
    # ---- 5b. ...ArrayFromBuffer x sources strided along their first dimension only ------------------
    if R.stage("buffer-rows"):
        c19_buf.run_rows(R, thorough)

    return R.finish()


if __name__ == "__main__":
    sys.exit(main())
