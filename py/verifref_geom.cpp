// Reference functions for the scalar Line3 and Plane3 bindings, written against ImathLine.h, ImathLineAlgo.h, ImathPlane.h.
#include "verifref_common.hpp"
using namespace vr;

template <class T> static void line_refs (const char* cls)
{
    typedef Line3<T> L;
    typedef Vec3<T> V;
    Reg D (cls);
    D ("__init__", +[] () { return L (V (0, 0, 0), V (1, 0, 0)); });          // documented: point (0,0,0), direction (1,0,0)
    D ("__init__", +[] (const bp::tuple& a, const bp::tuple& b) { return L (from_seq<V> (a), from_seq<V> (b)); });
    D ("__init__", +[] (const Line3<float>& o) { L l; l.pos = V (o.pos); l.dir = V (o.dir); return l; });
    D ("__init__", +[] (const Line3<double>& o) { L l; l.pos = V (o.pos); l.dir = V (o.dir); return l; });
    D ("__init__", +[] (const Vec3<float>& a, const Vec3<float>& b) { return L (V (a), V (b)); });
    D ("__init__", +[] (const Vec3<double>& a, const Vec3<double>& b) { return L (V (a), V (b)); });
    D ("__copy__", +[] (const L& l) { return L (l); });
    D ("__deepcopy__", +[] (const L& l, bp::dict&) { return L (l); });
    D ("__mul__", +[] (L& l, const Matrix44<T>& m) { return l * m; });
    D ("__eq__", +[] (const L& a, const L& b) { return a.pos == b.pos && a.dir == b.dir; });
    D ("__ne__", +[] (const L& a, const L& b) { return !(a.pos == b.pos && a.dir == b.dir); });
    D ("pos", +[] (L& l) { return l.pos; });
    D ("dir", +[] (L& l) { return l.dir; });
    D ("setPos", +[] (L& l, const V& p) { l.pos = p; });
    D ("setPos", +[] (L& l, const bp::tuple& p) { l.pos = from_seq<V> (p); });
    // documented: "sets the direction of line l to d.normalized()"
    D ("setDir", +[] (L& l, const V& d) { l.dir = d.normalized (); });
    D ("setDir", +[] (L& l, const bp::tuple& d) { l.dir = from_seq<V> (d).normalized (); });
    D ("set", +[] (L& l, const V& a, const V& b) { l.set (a, b); });
    D ("set", +[] (L& l, const bp::tuple& a, const bp::tuple& b) { l.set (from_seq<V> (a), from_seq<V> (b)); });
    D ("pointAt", +[] (L& l, T t) { return l (t); });
    D ("distanceTo", +[] (L& l, V& p) { return l.distanceTo (p); });
    D ("distanceTo", +[] (L& l, L& o) { return l.distanceTo (o); });
    D ("distanceTo", +[] (const L& l, const bp::tuple& p) { return l.distanceTo (from_seq<V> (p)); });
    D ("closestPointTo", +[] (const L& l, const V& p) { return l.closestPointTo (p); });
    D ("closestPointTo", +[] (const L& l, const bp::tuple& p) { return l.closestPointTo (from_seq<V> (p)); });
    D ("closestPointTo", +[] (const L& l, const L& o) { return l.closestPointTo (o); });
    D ("closestPoints", +[] (L& a, const L& b, V& p0, V& p1) { IMATH_NAMESPACE::closestPoints (a, b, p0, p1); });
    D ("closestPoints", +[] (L& a, const L& b) {
        V p0, p1;
        IMATH_NAMESPACE::closestPoints (a, b, p0, p1);
        return bp::make_tuple (bp::make_tuple (p0.x, p0.y, p0.z), bp::make_tuple (p1.x, p1.y, p1.z));
    });
    // helper for the driver: does the library define the two points (it returns false for (nearly) parallel lines and leaves them unset)?
    bp::def ((std::string ("_") + cls + "_closestPoints_defined").c_str (), +[] (const L& a, const L& b) {
        V p0, p1;
        return IMATH_NAMESPACE::closestPoints (a, b, p0, p1);
    });
    D ("closestTriangleVertex", +[] (L& l, const V& a, const V& b, const V& c) { return IMATH_NAMESPACE::closestVertex (a, b, c, l); });
    D ("closestTriangleVertex", +[] (L& l, const bp::tuple& a, const bp::tuple& b, const bp::tuple& c) {
        return IMATH_NAMESPACE::closestVertex (from_seq<V> (a), from_seq<V> (b), from_seq<V> (c), l);
    });
    // documented: (point, barycentric, front) or None (tuple form: an empty tuple) when there is no intersection
    D ("intersectWithTriangle", +[] (L& l, const V& a, const V& b, const V& c) {
        V pt, bar; bool front;
        if (IMATH_NAMESPACE::intersect (l, a, b, c, pt, bar, front)) return bp::object (bp::make_tuple (pt, bar, front));
        return bp::object ();
    });
    D ("intersectWithTriangle", +[] (L& l, const bp::tuple& a, const bp::tuple& b, const bp::tuple& c) {
        V pt, bar; bool front;
        if (IMATH_NAMESPACE::intersect (l, from_seq<V> (a), from_seq<V> (b), from_seq<V> (c), pt, bar, front)) return bp::make_tuple (pt, bar, front);
        return bp::tuple ();
    });
    D ("rotatePoint", +[] (L& l, const V& p, T r) { return IMATH_NAMESPACE::rotatePoint (p, l, r); });
    D ("rotatePoint", +[] (L& l, const bp::tuple& p, T r) { return IMATH_NAMESPACE::rotatePoint (from_seq<V> (p), l, r); });
}

template <class T, class S> static Line3<T> line_as (const Line3<S>& o) { Line3<T> l; l.pos = Vec3<T> (o.pos); l.dir = Vec3<T> (o.dir); return l; }

template <class T> static void plane_refs (const char* cls)
{
    typedef Plane3<T> P;
    typedef Vec3<T> V;
    Reg D (cls);
    D ("__init__", +[] () { return P (V (1, 0, 0), T (0)); });                 // documented: normal (1,0,0), distance 0
    D ("__init__", +[] (const bp::tuple& n, T d) { if (seqlen (n) != 3) throw std::domain_error ("tuple of length 3"); return P (from_seq<V> (n), d); });
    D ("__init__", +[] (const bp::tuple& a, const bp::tuple& b) { if (seqlen (a) != 3 || seqlen (b) != 3) throw std::domain_error ("tuple of length 3"); return P (from_seq<V> (a), from_seq<V> (b)); });
    D ("__init__", +[] (const bp::tuple& a, const bp::tuple& b, const bp::tuple& c) {
        if (seqlen (a) != 3 || seqlen (b) != 3 || seqlen (c) != 3) throw std::domain_error ("tuple of length 3");
        return P (from_seq<V> (a), from_seq<V> (b), from_seq<V> (c));
    });
    D ("__init__", +[] (const bp::object& o) {
        P p;
        bp::extract<const Plane3<float>&> ef (o);
        bp::extract<const Plane3<double>&> ed (o);
        if (ef.check ()) { p.normal = V (ef ().normal); p.distance = T (ef ().distance); }
        else if (ed.check ()) { p.normal = V (ed ().normal); p.distance = T (ed ().distance); }
        else throw std::invalid_argument ("not a plane");
        return p;
    });
    D ("__init__", +[] (const V& n, T d) { return P (n, d); });
    D ("__init__", +[] (const V& p, const V& n) { return P (p, n); });
    D ("__init__", +[] (const V& a, const V& b, const V& c) { return P (a, b, c); });
    D ("__copy__", +[] (const P& p) { return P (p); });
    D ("__deepcopy__", +[] (const P& p, bp::dict&) { return P (p); });
    D ("__eq__", +[] (const P& a, const P& b) { return a.normal == b.normal && a.distance == b.distance; });
    D ("__ne__", +[] (const P& a, const P& b) { return !(a.normal == b.normal && a.distance == b.distance); });
    D ("__mul__", +[] (const P& p, const Matrix44<T>& m) { return p * m; });
    D ("__neg__", +[] (const P& p) { return -p; });
    D ("normal", +[] (P& p) { return p.normal; });
    D ("distance", +[] (P& p) { return p.distance; });
    D ("setNormal", +[] (P& p, const V& n) { p.normal = n.normalized (); });
    D ("setDistance", +[] (P& p, T d) { p.distance = d; });
    D ("set", +[] (P& p, const V& n, T d) { p.set (n, d); });
    D ("set", +[] (P& p, const V& a, const V& b) { p.set (a, b); });
    D ("set", +[] (P& p, const V& a, const V& b, const V& c) { p.set (a, b, c); });
    D ("set", +[] (P& p, const bp::tuple& n, T d) { if (seqlen (n) != 3) throw std::domain_error ("tuple of length 3"); p.set (from_seq<V> (n), d); });
    D ("set", +[] (P& p, const bp::tuple& a, const bp::tuple& b) { if (seqlen (a) != 3 || seqlen (b) != 3) throw std::domain_error ("tuple of length 3"); p.set (from_seq<V> (a), from_seq<V> (b)); });
    D ("set", +[] (P& p, const bp::tuple& a, const bp::tuple& b, const bp::tuple& c) {
        if (seqlen (a) != 3 || seqlen (b) != 3 || seqlen (c) != 3) throw std::domain_error ("tuple of length 3");
        p.set (from_seq<V> (a), from_seq<V> (b), from_seq<V> (c));
    });
    D ("intersect", +[] (const P& p, const Line3<T>& l, V& pt) { return p.intersect (l, pt); });
    D ("intersect", +[] (const P& p, const Line3<float>& l) { V pt; return p.intersect (line_as<T> (l), pt) ? bp::object (pt) : bp::object (); });
    D ("intersect", +[] (const P& p, const Line3<double>& l) { V pt; return p.intersect (line_as<T> (l), pt) ? bp::object (pt) : bp::object (); });
    D ("intersectT", +[] (const P& p, const Line3<float>& l) { T t; return p.intersectT (line_as<T> (l), t) ? bp::object (t) : bp::object (); });
    D ("intersectT", +[] (const P& p, const Line3<double>& l) { T t; return p.intersectT (line_as<T> (l), t) ? bp::object (t) : bp::object (); });
    D ("distanceTo", +[] (P& p, const V& v) { return p.distanceTo (v); });
    D ("distanceTo", +[] (P& p, const bp::tuple& v) { return p.distanceTo (from_seq<V> (v)); });
    D ("reflectPoint", +[] (P& p, const V& v) { return p.reflectPoint (v); });
    D ("reflectPoint", +[] (P& p, const bp::tuple& v) { return p.reflectPoint (from_seq<V> (v)); });
    D ("reflectVector", +[] (P& p, const V& v) { return p.reflectVector (v); });
    D ("reflectVector", +[] (P& p, const bp::tuple& v) { return p.reflectVector (from_seq<V> (v)); });
}

BOOST_PYTHON_MODULE (verifref_geom)
{
    line_refs<float> ("Line3f");
    line_refs<double> ("Line3d");
    plane_refs<float> ("Plane3f");
    plane_refs<double> ("Plane3d");
}
