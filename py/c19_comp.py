"""C19 exploration 1b: component views (.x .y .z .w / .r .g .b .a / Quat .r .x .y .z / Box .min .max, and the views of
those views) of dense arrays AND OF MASKED REFERENCES, writable and read-only.

A component view is the element accessor of the property statement applied to every element at once: `a.x` addresses
the x component of every element of `a`; taken from a masked reference `v = a[mask]` it must address the x component of
exactly the elements the mask selects -- "masked references read and write exactly the elements the same operation
selects on an equivalent Python list".

Model: the owner is a list M of value lists (one number per scalar component of the element, W per element; element k
holds k, k+1, ..., k+W-1 as built by c19_common.elem_maker). A component path selects a fixed range of positions inside
each element (x -> [0], Box3 max -> [3,4,5], Box3 max.y -> [4]); a view taken from `src` (the array, or the masked
reference selecting the index list `sel`) has len(sel) elements, element j shows M[sel[j]][positions], a store through
element j changes exactly those numbers, everything else stays. Views of a read-only source are read-only: every store
through them raises and changes nothing.

Enumerated: every class that has component properties x lengths 0..N x {no mask, every 0/1 mask of length n} x every
component path x {reads, bounds, element stores through every position, slice stores} x {writable, read-only twin}.
"""
import imath
from c19_common import Codec, SCALAR, elem_maker, int_array, masks_of, run_case, ASAN

MR = "masked-reference"
VEC_POS = {"x": 0, "y": 1, "z": 2, "w": 3}
COL_POS = {"r": 0, "g": 1, "b": 2, "a": 3}
QUAT_POS = {"r": 0, "x": 1, "y": 2, "z": 3}          # elem_maker builds Quat(k, k+1, k+2, k+3) = (r, v.x, v.y, v.z)


def family(name):
    """-> (W, {component: (first position, count, dimension of the component value or 0 for a scalar)})."""
    b = name[:-5]
    if b[0] == "V" and b[1] in "234":
        n = int(b[1]); return n, {c: (p, 1, 0) for c, p in VEC_POS.items() if p < n}
    if b[0] == "C" and b[1] in "34":
        n = int(b[1]); return n, {c: (p, 1, 0) for c, p in COL_POS.items() if p < n}
    if b.startswith("Quat"): return 4, {c: (p, 1, 0) for c, p in QUAT_POS.items()}
    if b.startswith("Box"):
        n = int(b[3]); return 2 * n, {"min": (0, n, n), "max": (n, n, n)}
    return 0, {}


def from_vals(name):
    """Constructor of the element of array class `name` from its W numbers (the definition of the element layout)."""
    b = name[:-5]
    if b[0] == "C" and b[1] in "34": b = "Color" + b[1:]
    E = getattr(imath, b)
    if b.startswith("Box"):
        n = int(b[3]); V = getattr(imath, "V" + b[3:])
        return lambda vals: E(V(*vals[:n]), V(*vals[n:]))
    return lambda vals: E(*vals)


def comp_classes():
    """Array classes whose component properties exist and return an array on a dense instance (the V*i64 arrays have
    the properties but no registered result class -- C20's open finding -- and are left out here)."""
    out = []
    for nm in sorted(dir(imath)):
        if not nm.endswith("Array") or nm.startswith("VV"): continue
        W, comps = family(nm)
        if not comps: continue
        try:
            elem_maker(nm); a = getattr(imath, nm)(1)
            if all(type(getattr(a, c)).__name__.endswith("Array") for c in comps): out.append(nm)
        except Exception:
            continue
    return out


QUICK = ["V3fArray", "V2iArray", "V4sArray", "V3dArray", "C4fArray", "C3cArray", "C4cArray", "QuatfArray", "QuatdArray", "Box3fArray", "Box2iArray", "Box2dArray"]


def items(names, maxn):
    return [(c, n) for c in names for n in range(maxn + 1)]


class _X:
    def __init__(self, item, t):
        self.name, self.n = item
        self.t = t
        self.W, comps = family(self.name)
        self.mk = from_vals(self.name)
        self.C = getattr(imath, self.name)
        n = self.n
        self.base = [[k + j for j in range(self.W)] for k in range(1, n + 1)]
        self.a = self.build()
        self.ro = self.build(); self.ro.makeReadOnly()
        # component paths: (names, first position, count, view class name)
        probe = self.C(1)
        self.paths = []
        for c, (p, cnt, dim) in sorted(comps.items()):
            vcls = type(getattr(probe, c)).__name__
            self.paths.append(((c,), p, cnt, vcls))
            if dim:                                          # Box: min/max are vector arrays with component views of their own
                W2, comps2 = family(vcls)
                sub = getattr(probe, c)
                for c2, (p2, cnt2, _) in sorted(comps2.items()):
                    try: v2 = type(getattr(sub, c2)).__name__
                    except TypeError: continue               # V*i64Array.x: no result class registered (C20 finding)
                    self.paths.append(((c, c2), p + p2, 1, v2))

    def build(self):
        a = self.C(self.n)
        for i, vals in enumerate(self.base): a[i] = self.mk(vals)
        return a

    def restore(self):
        for i, vals in enumerate(self.base): self.a[i] = self.mk(vals)

    def ctx(self, what): return "%s n=%d %s" % (self.name, self.n, what)

    def attempt(self, f):
        try:
            return f(), None
        except Exception as e:
            nm = type(e).__name__
            if nm == "ArgumentError":
                self.t.fail("comp.harness.argument-error", str(e)[:200], "call matches a registered overload", nm)
            return None, nm

    @staticmethod
    def follow(src, names):
        v = src
        for c in names: v = getattr(v, c)
        return v

    def vkey(self, vcls, vals):
        """expected repr of a view element holding `vals`."""
        if vcls in SCALAR: return repr(SCALAR[vcls](vals[0]))
        return repr(from_vals(vcls)(vals))

    def vmk(self, vcls, vals):
        if vcls in SCALAR: return SCALAR[vcls](vals[0])
        return from_vals(vcls)(vals)

    def owner_is(self, site, what, M, arr=None):
        self.t.add("evaluations")
        arr = self.a if arr is None else arr
        got = [repr(arr[i]) for i in range(len(arr))]
        want = [repr(self.mk(v)) for v in M]
        if got != want:
            self.t.fail(site, self.ctx(what), want, got); return False
        return True

    # ------------------------------------------------------------------------------------------------------------
    def one_source(self, mask):
        """mask = None (the array itself) or a 0/1 list of length n."""
        t, n, a = self.t, self.n, self.a
        kind = "dense" if mask is None else MR
        sel = list(range(n)) if mask is None else [i for i in range(n) if mask[i]]
        cnt = len(sel)
        ms = "a" if mask is None else "a[mask %s]" % ("".join(map(str, mask)) or "<empty>")
        if mask is None: t.cls("comp.source.dense")
        else: t.cls("comp.source.mask.all-zero" if cnt == 0 else ("comp.source.mask.all-one" if cnt == n else "comp.source.mask.mixed"))
        if mask is None:
            src, rsrc = a, self.ro
        else:
            m = int_array(mask)
            src, e1 = self.attempt(lambda: a[m]); rsrc, e2 = self.attempt(lambda: self.ro[m])
            if e1 or e2:
                t.fail("comp.masked-reference.creation", self.ctx(ms), "a masked reference", e1 or e2); return
        for names, p, pc, vcls in self.paths:
            ps = ms + "." + ".".join(names)
            if len(names) > 1: t.cls("comp.path.view-of-view")
            t.cls("comp.path.vector-valued" if pc > 1 else "comp.path.scalar-valued")
            if ASAN and mask is not None and cnt == 0:
                # under AddressSanitizer a fatal outcome of this one input class is observed in a child of its own
                t.add("transitions")
                k, val = run_case(lambda: len(self.follow(self.a[int_array(mask)], names)))
                if k == "fatal":
                    t.fail("comp.masked-reference.empty-selection.fatal", self.ctx("len(%s)" % ps), 0, val); continue
            # ---- reads ------------------------------------------------------------------------------------------
            t.add("transitions")
            v, exc = self.attempt(lambda: self.follow(src, names))
            want = [self.vkey(vcls, self.base[i][p:p + pc]) for i in sel]
            if exc:
                t.fail("comp.%s.read" % kind, self.ctx(ps), want, exc); continue
            got = [repr(v[j]) for j in range(len(v))]
            if type(v).__name__ != vcls or got != want:
                t.fail("comp.%s.read" % kind, self.ctx(ps), (vcls, want), (type(v).__name__, got))
                if type(v).__name__ != vcls or len(v) != cnt: continue
            if v.writable() is not True:
                t.fail("comp.%s.writable-flag" % kind, self.ctx(ps + ".writable()"), True, v.writable())
            t.add("transitions", 2)
            _, x1 = self.attempt(lambda: v[cnt]); _, x2 = self.attempt(lambda: v[-cnt - 1])
            if x1 is None or x2 is None:
                t.fail("comp.%s.out-of-range" % kind, self.ctx("v=%s; v[%d], v[%d]" % (ps, cnt, -cnt - 1)), "exceptions", (x1, x2))
            # ---- element stores through every position ----------------------------------------------------------
            M = [list(r) for r in self.base]
            t.add("transitions")
            bad = None
            for j in range(cnt):
                nv = [70 + 3 * j + c for c in range(pc)]
                _, exc = self.attempt(lambda: v.__setitem__(j - cnt if j & 1 else j, self.vmk(vcls, nv)))
                if exc: bad = (j, exc)
                M[sel[j]][p:p + pc] = nv
            if bad: t.fail("comp.%s.write-through" % kind, self.ctx("v=%s; v[%d]=value" % (ps, bad[0])), "stored", bad[1])
            self.owner_is("comp.%s.write-through" % kind, "v=%s; v[j]=value for every j (owner contents)" % ps, M)
            if cnt: self.restore()
            # ---- slice stores through the view --------------------------------------------------------------------
            t.add("transitions")
            nv = [50 + c for c in range(pc)]
            _, exc = self.attempt(lambda: v.__setitem__(slice(1, None, 2), self.vmk(vcls, nv)))
            M = [list(r) for r in self.base]
            for i in sel[1::2]: M[i][p:p + pc] = nv
            if exc: t.fail("comp.%s.write-through" % kind, self.ctx("v=%s; v[1::2]=value" % ps), "stored", exc)
            self.owner_is("comp.%s.write-through" % kind, "v=%s; v[1::2]=value (owner contents)" % ps, M)
            if cnt > 1: self.restore()
            if cnt:
                t.add("transitions")
                srcv = getattr(imath, vcls)(cnt)
                for q in range(cnt): srcv[q] = self.vmk(vcls, [60 + 3 * q + c for c in range(pc)])
                _, exc = self.attempt(lambda: v.__setitem__(slice(None, None, -1), srcv))
                M = [list(r) for r in self.base]
                for q, i in enumerate(reversed(sel)): M[i][p:p + pc] = [60 + 3 * q + c for c in range(pc)]
                if exc: t.fail("comp.%s.write-through" % kind, self.ctx("v=%s; v[::-1]=array(len %d)" % (ps, cnt)), "stored", exc)
                self.owner_is("comp.%s.write-through" % kind, "v=%s; v[::-1]=array(len %d) (owner contents)" % (ps, cnt), M)
                self.restore()
            # ---- the same path through the read-only twin -----------------------------------------------------------
            t.add("transitions")
            rv, exc = self.attempt(lambda: self.follow(rsrc, names))
            rps = "ro" + ps[1:]
            if exc:
                t.fail("comp.%s.read" % kind, self.ctx(rps + " (read-only twin)"), want, exc); continue
            got = [repr(rv[j]) for j in range(len(rv))]
            if got != want:
                t.fail("comp.%s.read" % kind, self.ctx(rps + " (read-only twin)"), want, got); continue
            t.cls("comp.readonly.%s" % kind)
            if rv.writable() is not False:
                t.fail("comp.readonly.%s.writable-flag" % kind, self.ctx(rps + ".writable()"), False, rv.writable())
            nvv = self.vmk(vcls, nv)
            for what, f in (("rv[0]=value", lambda: rv.__setitem__(0, nvv)), ("rv[-1]=value", lambda: rv.__setitem__(-1, nvv)),
                            ("rv[:]=value", lambda: rv.__setitem__(slice(None), nvv))):
                t.add("transitions")
                _, exc = self.attempt(f)
                if not self.owner_is("comp.readonly.%s.store" % kind, "rv=%s; %s (read-only owner contents)" % (rps, what), self.base, self.ro):
                    self.ro = self.build(); self.ro.makeReadOnly()
                    if mask is not None: rsrc = self.ro[int_array(mask)]
                    else: rsrc = self.ro
                    rv = self.follow(rsrc, names)
                elif exc is None and cnt:
                    t.fail("comp.readonly.%s.store" % kind, self.ctx("rv=%s; %s" % (rps, what)), "an exception (the source is read-only)", "no exception")

    def run(self):
        t = self.t
        t.add("states")
        if not self.owner_is("comp.build", "a[i]=elem; [a[i] ...]", self.base): return
        self.one_source(None)
        for mask in masks_of(self.n):
            self.one_source(mask)
        self.owner_is("comp.final-state", "owner back at its baseline after all cases", self.base)
        self.owner_is("comp.readonly.final-state", "read-only twin untouched after all cases", self.base, self.ro)
        if self.n == 3 and self.name in ("V3fArray", "Box3fArray"):
            t.sample("%s n=3: %d component paths x {a, a[mask] for all 8 masks} x reads/bounds/element+slice stores, writable + read-only twin" % (self.name, len(self.paths)))


def run_item(item, t):
    _X(item, t).run()


CLASSES = ["comp.source.dense", "comp.source.mask.all-zero", "comp.source.mask.all-one", "comp.source.mask.mixed", "comp.path.view-of-view",
           "comp.path.vector-valued", "comp.path.scalar-valued", "comp.readonly.dense", "comp.readonly." + MR]


def run(R, thorough):
    from c19_common import fork_map
    names = run_case(comp_classes)[1]
    if ASAN: names = [c for c in QUICK if c in names]
    maxn = 5 if thorough else 4
    R.declare(*CLASSES)
    ok = fork_map(run_item, items(names, maxn), R, "comp.worker.fatal", describe=lambda it: "%s n=%d" % it)
    R.sample("V3fArray [e1,e2,e3]; v=a[mask 101]; v.x must read [e1.x, e3.x]; v.x[1]=9 must change e3.x only")
    msg = "%d classes with component properties x lengths 0..%d x {the array, a[mask] for every 0/1 mask} x every component path (Box: min/max and their x/y/z) x reads, bounds, element and slice stores, writable + read-only twin" % (len(names), maxn)
    (R.stage_done if ok else R.stage_partial)(msg)
