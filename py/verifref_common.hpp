// Shared glue of the C20 "scalar bindings return what the C++ library returns" reference modules
// (py/verifref_<family>.cpp, driven by py/c20_scalar.py).
//
// A reference module is a Boost.Python module whose functions call the Imath LIBRARY directly. It relies on the
// to/from-python converters that the `imath` module registers (the driver imports imath first), so it needs no
// class_<> declarations of its own and does not link against libPyImath.
//
// Conventions (the driver matches by NAME and by C++ ARGUMENT TYPE LIST read from the docstring signatures):
//   * method  <Class>.<m>(args)          ->  function "<Class>__<m>"(self, args...)        e.g. V3f__cross, M44f____mul__
//   * constructor <Class>(args)          ->  "<Class>____init__"(args...) returning the object by value
//   * static method                      ->  "<Class>__<m>"(args...) (no self)
//   * property / data attribute <a>      ->  getter "<Class>__<a>"(self); setter "<Class>__<a>"(self&, value)
//   * module-level function imath.<f>    ->  "imath__<f>"(args...)
//   * names starting with '_' are helpers, not references.
//   Same name, several overloads where the binding is overloaded; each overload's parameter types must be the ones in the
//   binding's docstring signature (after removing const/&/{lvalue}).  In-place members take a NON-const reference (the
//   driver compares every operand afterwards) and return the result BY VALUE.
//   Every body is written from the documented library function the Python name stands for — never from the wrapper.
#ifndef VERIFREF_COMMON_HPP
#define VERIFREF_COMMON_HPP
#define BOOST_BIND_GLOBAL_PLACEHOLDERS
#define BOOST_PYTHON_MAX_ARITY 17   // Matrix44 (a..p)
#include <Python.h>
#include <boost/python.hpp>
#include <ImathVec.h>
#include <ImathVecAlgo.h>
#include <ImathColor.h>
#include <ImathColorAlgo.h>
#include <ImathMatrix.h>
#include <ImathMatrixAlgo.h>
#include <ImathQuat.h>
#include <ImathEuler.h>
#include <ImathBox.h>
#include <ImathBoxAlgo.h>
#include <ImathShear.h>
#include <ImathLine.h>
#include <ImathLineAlgo.h>
#include <ImathPlane.h>
#include <ImathFrustum.h>
#include <ImathFrustumTest.h>
#include <ImathFun.h>
#include <ImathRandom.h>
#include <ImathSphere.h>
#include <stdexcept>
#include <string>
#include <cstdint>

namespace bp = boost::python;
using namespace IMATH_NAMESPACE;

namespace vr {

// def("<cls>__<name>", f)
struct Reg
{
    std::string cls;
    explicit Reg (const char* c) : cls (c) {}
    template <class F> void operator() (const char* name, F f) const { bp::def ((cls + "__" + name).c_str (), f); }
};

// ---- python sequence -> vector-like (the tuple/list overloads: "a tuple of N numbers is the vector with those components")
template <class T> inline T num (const bp::object& o) { return bp::extract<T> (o); }

inline long seqlen (const bp::object& t) { return bp::extract<long> (t.attr ("__len__") ()); }

template <class V> inline V from_seq (const bp::object& t)   // V has operator[] and dimensions()
{
    typedef typename V::BaseType T;
    if (seqlen (t) != long (V::dimensions ())) throw std::invalid_argument ("sequence of wrong length");
    V v;
    for (unsigned i = 0; i < V::dimensions (); ++i) v[i] = num<T> (t[i]);
    return v;
}

// python index -> C index (python sequence contract: negative counts from the end, out of range raises IndexError)
inline long pyindex (long i, long n)
{
    if (i < 0) i += n;
    if (i < 0 || i >= n) throw std::out_of_range ("index out of range");
    return i;
}

template <class V, class S> struct rebindv;
template <class T, class S> struct rebindv<Vec2<T>, S> { typedef Vec2<S> type; };
template <class T, class S> struct rebindv<Vec3<T>, S> { typedef Vec3<S> type; };
template <class T, class S> struct rebindv<Vec4<T>, S> { typedef Vec4<S> type; };

// "object" operand standing for a vector (V2 / V3): an instance of ANY vector class of that dimension the module registers
// (element type short, int, int64, float, double, unsigned char), or a tuple / list.  A vector of another element type S
// stands for the library's converting constructor Vec<T> (const Vec<S>&), i.e. component-wise T (s) of the FULL-WIDTH
// source components.  (Which of these classes a given binding accepts at all is the binding's business: the driver only
// demands that a binding which returns for such an operand returns this.)
template <class V> V vec_arg (const bp::object& o)
{
    typedef typename V::BaseType T;
    bp::extract<const V&> e0 (o);
    if (e0.check ()) return e0 ();
#define VR_TRY(S)                                                                                                          \
    {                                                                                                                      \
        bp::extract<const typename rebindv<V, S>::type&> e (o);                                                            \
        if (e.check ()) return V (e ());                                                                                   \
    }
    VR_TRY (int) VR_TRY (int64_t) VR_TRY (float) VR_TRY (double) VR_TRY (short) VR_TRY (unsigned char)
#undef VR_TRY
    if (PyTuple_Check (o.ptr ()) || PyList_Check (o.ptr ())) return from_seq<V> (o);
    throw std::invalid_argument ("expected a vector");
}

template <class T> struct dims;
template <class T> struct dims<Vec2<T>> { enum { n = 2 }; };
template <class T> struct dims<Vec3<T>> { enum { n = 3 }; };
template <class T> struct dims<Vec4<T>> { enum { n = 4 }; };

} // namespace vr
#endif
