#include "verifref_vec.hpp"
BOOST_PYTHON_MODULE (verifref_vec3f)
{
    vr::vec3_refs<float> ("V3f");
    vr::vec3_refs<double> ("V3d");
}
