#!/usr/bin/env python3.11
"""C20 — free-running concurrency pass (complementary to the exhaustive scripted exploration).

The same entry points and argument bundles as c20_explore.py, but the ScriptedPool runs every piece of
the partition on its own std::thread, all released together from a barrier (verifpool mode 1). The
pool's hand-offs are plain thread create/join — no scheduler-made happens-before edges between
pieces — so unsynchronised sharing between sub-ranges (a static scratch buffer, an accumulator not
indexed by tid) is visible to ThreadSanitizer when this script runs inside the TSan-instrumented build,
and shows up as a result that differs from the pool-free run otherwise.

This pass SAMPLES real schedules (it is not exhaustive); it is reported separately from the exhaustive
count and can only add violations (a data race or a differing result), never remove one.
"""
import glob, json, os, re, sys, time

sys.path.insert(0, os.path.dirname(os.path.abspath(__file__)))
import c20_explore as X
import verifpool

R = X.R
TSAN = "tsan" in os.environ.get("LD_PRELOAD", "")


def main():
    eps, skipped = X.discover()
    only = os.environ.get("C20_ONLY")
    n = 208
    reps = 3 if not TSAN else 1
    t_dead = R.t0 + R.deadline
    R.declare("threads.dispatched-entry-points")
    if R.stage("threads-free-running"):
        done = 0
        for e in eps:
            if only and not re.search(only, e.label()):
                continue
            if time.time() > t_dead:
                R.stage_partial("%d entry points" % done)
                break
            combos = X.kind_combos(e, True)
            kinds = combos[0]
            try:
                bundle = X.Bundle(e, kinds, n)
            except Exception:                   # noqa: BLE001
                continue
            fn = e.fn()
            verifpool.uninstall()
            try:
                r0, x0, a0, k0 = X.run_call(fn, bundle)
                ref = X.canon(r0, a0, k0) if x0 is None else None
            except X.CannotCanon:
                continue
            if x0 is not None:
                continue
            verifpool.install()
            verifpool.set_mode(1)
            dispatched = False
            for w, script in X.schedules(n, 2, (3,), all_tid_maps=False, reduced=True):
                if len(script) < 2 or sorted(p[2] for p in script) != list(range(len(script))):
                    continue                      # concurrent pieces must carry distinct worker ids (a real pool's contract)
                for _ in range(reps):
                    verifpool.set_workers(w)
                    verifpool.set_script(script)
                    verifpool.reset_stats()
                    r1, x1, a1, k1 = X.run_call(fn, bundle)
                    R.add("evaluations", 1); R.add("transitions", 1); R.add("states", 1)
                    if verifpool.stats()[0]:
                        dispatched = True
                    else:
                        break
                    if x1 is not None or X.canon(r1, a1, k1) != ref:
                        R.fail("threads.result-differs:" + e.label(), "workers=%d concurrent pieces=%s" % (w, script),
                               "bitwise equal to the run without a pool", x1 or "different bytes")
                if not dispatched:
                    break
            verifpool.set_mode(0)
            verifpool.uninstall()
            if dispatched:
                R.cls("threads.dispatched-entry-points", 1)
            done += 1
        else:
            R.stage_done("%d entry points, all-plain arguments, every partition by 1..2 cuts from the reduced alphabet run as concurrent threads%s"
                         % (done, " under ThreadSanitizer" if TSAN else " (x3 repetitions)"))
    # ThreadSanitizer reports (log_path set by the driver through TSAN_OPTIONS)
    m = re.search(r"log_path=([^: ]+)", os.environ.get("TSAN_OPTIONS", ""))
    if TSAN and m:
        races = {}
        for f in glob.glob(m.group(1) + "*"):
            txt = open(f, errors="replace").read()
            for rep in txt.split("WARNING: ThreadSanitizer: ")[1:]:
                kind = rep.split("\n", 1)[0]
                fr = re.findall(r"#\d+ (\S+)", rep)
                top = next((x for x in fr if "PyImath" in x or "Imath" in x), fr[0] if fr else "?")
                races.setdefault((kind.split(" (")[0], top), 0)
                races[(kind.split(" (")[0], top)] += 1
        for (kind, top), c in sorted(races.items()):
            R.fail("tsan." + kind.replace(" ", "-") + ":" + top, "ThreadSanitizer report x%d" % c, "no report", kind)
        R.note("tsan_reports", sum(races.values()))
    return R.finish()


if __name__ == "__main__":
    sys.exit(main())
