#!/usr/bin/env python3.11
"""C20 — free-running concurrency pass (complementary to the exhaustive scripted exploration).

The same entry points and argument bundles as c20_explore.py, but the ScriptedPool runs every piece of
the partition on its own std::thread, all released together from a barrier (verifpool mode 1). The
pool's hand-offs are plain thread create/join — no scheduler-made happens-before edges between
pieces — so unsynchronised sharing between sub-ranges (a static scratch buffer, an accumulator not
indexed by tid) is visible to ThreadSanitizer when this script runs inside the TSan-instrumented build,
and shows up as a result that differs from the pool-free run otherwise.

This pass SAMPLES real schedules (it is not exhaustive); it is reported separately from the exhaustive
count and can only add violations (a data race or a differing result), never remove one.

Process structure: the invoked process is a coordinator; it discovers the entry points, cuts them into
chunks and runs each chunk in a fresh interpreter (C20_CHUNK=lo:hi), several at a time. A chunk whose
interpreter is killed by the *sanitizer runtime itself* (gcc-12 libtsan sporadically dies with
"ThreadSanitizer failed to allocate 0xffff... bytes" after a few thousand thread creations; timing
dependent, no report about the code under test) is re-run, then halved; entry points that still cannot be
run are counted as not covered (stage partial), never as a pass and never as a violation.
"""
import glob, json, os, re, subprocess, sys, time

sys.path.insert(0, os.path.dirname(os.path.abspath(__file__)))
import c20_explore as X
import verifpool

R = X.R
TSAN = "tsan" in os.environ.get("LD_PRELOAD", "")
CHUNK = os.environ.get("C20_CHUNK")


def run_entries(eps, t_dead):
    """Runs the free-running pass over eps; returns the number of entry points completed."""
    n = 208
    reps = 3 if not TSAN else 1
    done = 0
    for e in eps:
        if time.time() > t_dead:
            return done, False
        if os.environ.get("C20_TRACE"):
            sys.stderr.write("ENTRY %s\n" % e.label()); sys.stderr.flush()
        combos = X.kind_combos(e, True)
        kinds = combos[0]
        done += 1
        try:
            bundle = X.Bundle(e, kinds, n)
        except Exception:                   # noqa: BLE001
            continue
        fn = e.fn()
        verifpool.uninstall()
        try:
            r0, x0, a0, k0 = X.run_call(fn, bundle)
            ref = X.canon(r0, a0, k0) if x0 is None else None
        except X.CannotCanon:
            continue
        if x0 is not None:
            continue
        verifpool.install()
        verifpool.set_mode(1)
        dispatched = False
        for w, script in X.schedules(n, 2, (3,), all_tid_maps=False, reduced=True):
            if len(script) < 2 or sorted(p[2] for p in script) != list(range(len(script))):
                continue                      # concurrent pieces must carry distinct worker ids (a real pool's contract)
            for _ in range(reps):
                verifpool.set_workers(w)
                verifpool.set_script(script)
                verifpool.reset_stats()
                r1, x1, a1, k1 = X.run_call(fn, bundle)
                R.add("evaluations", 1); R.add("transitions", 1); R.add("states", 1)
                if verifpool.stats()[0]:
                    dispatched = True
                else:
                    break
                if x1 is not None or X.canon(r1, a1, k1) != ref:
                    R.fail("threads.result-differs:" + e.label(), "workers=%d concurrent pieces=%s" % (w, script),
                           "bitwise equal to the run without a pool", x1 or "different bytes")
            if not dispatched:
                break
        verifpool.set_mode(0)
        verifpool.uninstall()
        if dispatched:
            R.cls("threads.dispatched-entry-points", 1)
    return done, True


def tsan_reports(prefix):
    races = {}
    runtime_death = False
    for f in glob.glob(prefix + "*"):
        txt = open(f, errors="replace").read()
        if "ThreadSanitizer failed to allocate" in txt or "ThreadSanitizer: unexpected memory mapping" in txt:
            runtime_death = True
        for rep in txt.split("WARNING: ThreadSanitizer: ")[1:]:
            kind = rep.split("\n", 1)[0]
            fr = re.findall(r"#\d+ (\S+)", rep)
            top = next((x for x in fr if "PyImath" in x or "Imath" in x), fr[0] if fr else "?")
            races.setdefault((kind.split(" (")[0], top), 0)
            races[(kind.split(" (")[0], top)] += 1
        os.remove(f)
    return races, runtime_death


def child(eps):
    lo, hi = map(int, CHUNK.split(":"))
    if R.stage("threads-free-running"):
        done, complete = run_entries(eps[lo:hi], R.t0 + R.deadline)
        (R.stage_done if complete else R.stage_partial)("%d entry points" % done)
    R.note("done", hi - lo if complete else done)
    return R.finish()


def coordinator(eps):
    t_dead = R.t0 + R.deadline
    only = os.environ.get("C20_ONLY")
    idx = [i for i, e in enumerate(eps) if not only or re.search(only, e.label())]
    size = 12 if TSAN else 40
    # contiguous index ranges (C20_ONLY selections are rare; they simply give ranges of length 1)
    chunks, cur = [], []
    for i in idx:
        if cur and (i != cur[-1] + 1 or len(cur) >= size):
            chunks.append((cur[0], cur[-1] + 1)); cur = []
        cur.append(i)
    if cur:
        chunks.append((cur[0], cur[-1] + 1))
    outdir = os.path.join(os.environ.get("VERIF_PYBUILD", "/tmp"), "threads-chunks" + ("-tsan" if TSAN else ""))
    os.makedirs(outdir, exist_ok=True)
    for f in glob.glob(os.path.join(outdir, "*")):
        os.remove(f)
    R.declare("threads.dispatched-entry-points")
    races, covered, uncovered, deaths = {}, 0, [], 0
    if not R.stage("threads-free-running"):
        return R.finish()
    par = 8
    pending = [(lo, hi, 0) for lo, hi in chunks]
    running = []
    timed_out = False
    while pending or running:
        while pending and len(running) < par and not timed_out:
            lo, hi, attempt = pending.pop(0)
            tag = "%d-%d-%d" % (lo, hi, attempt)
            env = dict(os.environ, C20_CHUNK="%d:%d" % (lo, hi))
            logp = os.path.join(outdir, "tsan-" + tag)
            if TSAN:
                env["TSAN_OPTIONS"] = re.sub(r"log_path=[^: ]+", "log_path=" + logp, os.environ.get("TSAN_OPTIONS", "log_path=x"))
            out = os.path.join(outdir, "rep-" + tag + ".json")
            left = max(30, t_dead - time.time())
            p = subprocess.Popen([sys.executable, os.path.abspath(__file__), "--tier", R.tier, "--seed", str(R.seed), "--out", out, "--deadline", str(left)],
                                 env=env, stdout=subprocess.DEVNULL, stderr=open(os.path.join(outdir, "err-" + tag + ".txt"), "w"))
            running.append((p, lo, hi, attempt, out, logp))
        if time.time() > t_dead + 60:
            timed_out = True
            for p, *_ in running:
                p.kill()
        still = []
        for item in running:
            p, lo, hi, attempt, out, logp = item
            if p.poll() is None:
                still.append(item); continue
            rc, dead = ({}, False)
            if TSAN:
                rc, dead = tsan_reports(logp)
            for k, c in rc.items():
                races[k] = races.get(k, 0) + c
            rep = json.load(open(out)) if os.path.exists(out) else None
            if rep is not None:    # the child wrote its report (TSan makes the exit status 66 when it printed any report)
                for k, v in rep.get("counters", {}).items():
                    R.add(k, v)
                for k, v in rep.get("classes", {}).items():
                    R.cls(k, v)
                for v in rep.get("violations", []):
                    R.fail(v["site"], v["input"], v.get("expected", ""), v.get("got", ""))
                d = int(rep.get("notes", {}).get("done", hi - lo))
                covered += d
                if d < hi - lo:
                    uncovered.append("%d:%d (deadline)" % (lo + d, hi))
            elif dead and not timed_out:
                deaths += 1
                if attempt < 1:
                    pending.append((lo, hi, attempt + 1))
                elif hi - lo > 1:
                    mid = (lo + hi) // 2
                    pending += [(lo, mid, 0), (mid, hi, 0)]
                else:
                    uncovered.append("%d:%d (sanitizer runtime died twice)" % (lo, hi))
            elif timed_out:
                uncovered.append("%d:%d (deadline)" % (lo, hi))
            else:
                # the interpreter died for a reason that is neither a report nor a known sanitizer-runtime failure
                tail = open(os.path.join(outdir, "err-%d-%d-%d.txt" % (lo, hi, attempt)), errors="replace").read()[-300:]
                R.fail("crash.threads-pass", "entry points %d:%d (%s ..)" % (lo, hi, eps[lo].label()), "interpreter exits normally",
                       "exit %s: %s" % (p.returncode, tail))
        running = still
        if running:
            time.sleep(0.2)
        if timed_out and not running:
            uncovered += ["%d:%d (deadline)" % (lo, hi) for lo, hi, _ in pending]
            pending = []
    bound = ("%d entry points, all-plain arguments, every partition by 1..2 cuts from the reduced alphabet run as concurrent threads%s"
             % (covered, " under ThreadSanitizer" if TSAN else " (x3 repetitions)"))
    if uncovered:
        R.stage_partial(bound + "; NOT covered: entry-point index ranges " + ", ".join(uncovered[:20]))
    else:
        R.stage_done(bound)
    if TSAN:
        for (kind, top), c in sorted(races.items()):
            R.fail("tsan." + kind.replace(" ", "-") + ":" + top, "ThreadSanitizer report x%d" % c, "no report", kind)
        R.note("tsan_reports", sum(races.values()))
        R.note("tsan_runtime_deaths_retried", deaths)
    return R.finish()


def main():
    eps, skipped = X.discover()
    return child(eps) if CHUNK else coordinator(eps)


if __name__ == "__main__":
    sys.exit(main())
