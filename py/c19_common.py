"""C19 helpers: picklable tallies, a crash-tolerant fork pool, forked single cases, element codecs.

Everything that touches the module under test runs in forked children, so that a fatal outcome
(segfault, std::terminate, an AddressSanitizer abort) is an *observed outcome* of the case that
caused it and never the death of the harness.
"""
import gc, os, pickle, struct, sys, time, traceback, signal

import imath

ASAN = "libasan" in os.environ.get("LD_PRELOAD", "")
JOBS = int(os.environ.get("VERIF_JOBS", "12"))


# ----------------------------------------------------------------------------------------------
class Tally:
    """Partial report produced in a child; merged into vfreport.Report by the parent."""

    def __init__(self):
        self.counters = {}; self.classes = {}; self.vcount = {}; self.viols = []; self.samples = []
        self.cut = False          # deadline hit inside the item
        self.extra = None         # free-form payload handed to fork_map(on_result=...)

    def add(self, k, n=1): self.counters[k] = self.counters.get(k, 0) + n
    def cls(self, k, n=1): self.classes[k] = self.classes.get(k, 0) + n
    def sample(self, s):
        if len(self.samples) < 6: self.samples.append(str(s))

    def fail(self, site, inp, expected="", got=""):
        c = self.vcount[site] = self.vcount.get(site, 0) + 1
        if c <= 4:
            self.viols.append((site, str(inp), str(expected), str(got)))

    def absorb(self, o):
        for k, v in o.counters.items(): self.add(k, v)
        for k, v in o.classes.items(): self.cls(k, v)
        for s, c in o.vcount.items():
            have = self.vcount.get(s, 0)
            self.vcount[s] = have + c
        for v in o.viols:
            if sum(1 for w in self.viols if w[0] == v[0]) < 4: self.viols.append(v)
        for s in o.samples: self.sample(s)
        self.cut = self.cut or o.cut

    def merge_into(self, R):
        for k, v in self.counters.items(): R.add(k, v)
        for k, v in self.classes.items(): R.cls(k, v)
        for s, c in self.vcount.items():
            R.vcount[s] = R.vcount.get(s, 0) + c
        for site, inp, exp, got in self.viols:
            if sum(1 for w in R.viols if w["site"] == site) < 4:
                R.viols.append({"site": site, "stage": R.cur, "input": inp, "expected": exp, "got": got})
            if R.replay_site and R.replay_site == site:
                sys.stderr.write("REPLAY-FAIL site=%s input=%s expected=%s got=%s\n" % (site, inp, exp, got))
        for s in self.samples: R.sample(s)


# ----------------------------------------------------------------------------------------------
def _read_all(fd):
    chunks = []
    while True:
        b = os.read(fd, 1 << 16)
        if not b: break
        chunks.append(b)
    return b"".join(chunks)


def describe_status(st):
    if os.WIFSIGNALED(st):
        n = os.WTERMSIG(st)
        try: name = signal.Signals(n).name
        except Exception: name = str(n)
        return "killed by %s" % name
    return "exit %d" % os.WEXITSTATUS(st)


def run_case(fn, *args):
    """Run fn(*args) in a forked child. Returns ("ok", value) | ("exc", "Type: msg") | ("fatal", "killed by SIGABRT").
    value must be picklable. stderr of the child is discarded (terminate()/ASan chatter)."""
    sys.stderr.flush()
    r, w = os.pipe()
    pid = os.fork()
    if pid == 0:
        try:
            os.close(r)
            dn = os.open(os.devnull, os.O_WRONLY); os.dup2(dn, 2)
            try:
                out = ("ok", fn(*args))
            except BaseException as e:           # noqa
                out = ("exc", "%s: %s" % (type(e).__name__, e))
            try:
                data = pickle.dumps(out)
            except Exception as e:
                data = pickle.dumps(("exc", "unpicklable result: %s" % e))
            os.write(w, data)
        finally:
            os._exit(0)
    os.close(w)
    data = _read_all(r); os.close(r)
    _, st = os.waitpid(pid, 0)
    if os.WIFSIGNALED(st) or os.WEXITSTATUS(st) != 0 or not data:
        if data:                                   # result was written, then the child died on the way out
            try:
                kind, val = pickle.loads(data)
                if os.WIFSIGNALED(st): return ("fatal", describe_status(st) + " after producing " + repr(val)[:80])
            except Exception:
                pass
        return ("fatal", describe_status(st))
    return pickle.loads(data)


WATCHDOG_GRACE = 180.0


def fork_map(fn, items, R, fatal_site, describe=repr, jobs=None, on_result=None):
    """Run fn(item, tally) for every item in `jobs` forked workers (static interleaved sharding, so
    the visiting order is deterministic). A worker that dies is an observed outcome: the item it was
    processing gets a violation at `fatal_site`, and the remaining items of the shard continue in a
    fresh worker. Returns True if every item ran to completion (no worker died, deadline not hit)."""
    jobs = jobs or JOBS
    n = len(items)
    if n == 0: return True
    seed = R.seed % max(1, n)
    order = list(range(seed, n)) + list(range(0, seed))          # --seed only rotates the visiting order
    shards = [order[k::jobs] for k in range(jobs)]
    shards = [s for s in shards if s]
    deadline_abs = R.t0 + R.deadline
    complete = True
    pending = [(s, 0) for s in shards]                            # (shard, first index still to run)
    while pending:
        procs = []
        sys.stderr.flush()
        for shard, start in pending:
            r, w = os.pipe()
            pid = os.fork()
            if pid == 0:
                try:
                    os.close(r)
                    dn = os.open(os.devnull, os.O_WRONLY); os.dup2(dn, 2)
                    for pos in range(start, len(shard)):
                        if time.time() > deadline_abs:
                            os.write(w, b"C" + struct.pack("<I", pos)); break
                        os.write(w, b"S" + struct.pack("<I", pos))
                        t = Tally()
                        try:
                            fn(items[shard[pos]], t)
                        except BaseException as e:   # harness bug or unexpected exception type: report, do not die
                            t.fail(fatal_site.replace("fatal", "harness-exception"), describe(items[shard[pos]]),
                                   "no exception escaping the explorer", traceback.format_exc()[-600:])
                        data = pickle.dumps(t)
                        os.write(w, b"R" + struct.pack("<II", pos, len(data)) + data)
                finally:
                    os._exit(0)
            os.close(w)
            procs.append((pid, r, shard, start))
        pending = []
        # drain all pipes concurrently (a worker blocked on a full pipe would serialise the pool)
        import selectors
        sel = selectors.DefaultSelector()
        bufs = {}
        for pid, r, shard, start in procs:
            bufs[r] = []; sel.register(r, selectors.EVENT_READ)
        killed = False
        while bufs and sel.get_map():
            for key, _ in sel.select(timeout=5):
                b = os.read(key.fd, 1 << 20)
                if b: bufs[key.fd].append(b)
                else: sel.unregister(key.fd)
            # watchdog: workers test the deadline before every item, so only the item in flight can outlive it; an item
            # takes well under a second — one still running GRACE seconds after the deadline does not terminate (e.g. an
            # index computation in the library that never reaches its end); it is killed and reported as fatal for that item
            if not killed and time.time() > deadline_abs + WATCHDOG_GRACE:
                killed = True
                for pid, r, shard, start in procs:
                    try: os.kill(pid, 9)
                    except OSError: pass
        sel.close()
        for pid, r, shard, start in procs:
            data = b"".join(bufs[r]); os.close(r)
            _, st = os.waitpid(pid, 0)
            off = 0; started = None; done = start
            while off < len(data):
                tag = data[off:off + 1]
                if tag == b"S":
                    started = struct.unpack_from("<I", data, off + 1)[0]; off += 5
                elif tag == b"C":
                    complete = False; started = None; done = len(shard); off += 5
                elif tag == b"R":
                    pos, ln = struct.unpack_from("<II", data, off + 1); off += 9
                    if off + ln > len(data): break
                    t = pickle.loads(data[off:off + ln]); off += ln
                    t.merge_into(R)
                    if on_result is not None: on_result(items[shard[pos]], t)
                    if t.cut: complete = False
                    done = pos + 1; started = None
                else:
                    break
            if started is not None and done <= started:        # died while processing shard[started]
                t = Tally()
                t.fail(fatal_site, describe(items[shard[started]]), "worker survives the item", describe_status(st))
                t.merge_into(R)
                complete = False                                # that item's enumeration was cut short: the stage is partial
                if started + 1 < len(shard):
                    pending.append((shard, started + 1))
    return complete


# ----------------------------------------------------------------------------------------------
# Element codecs: mk(k) builds a distinct element value for each small non-negative integer k;
# elements are compared through repr(), which prints every component of every Imath value type
# (all values used are small integers, exactly representable in every component type).
SCALAR = {
    "BoolArray": lambda k: bool(k & 1),
    "SignedCharArray": int, "UnsignedCharArray": int, "ShortArray": int, "UnsignedShortArray": int,
    "IntArray": int, "UnsignedIntArray": int, "FloatArray": float, "DoubleArray": float,
    "StringArray": lambda k: "s%d" % k, "WstringArray": lambda k: "w%dé" % k,
}
QUICK_CLASSES = ["IntArray", "FloatArray", "UnsignedCharArray", "V3fArray", "StringArray",
                 "BoolArray", "V2iArray", "QuatfArray", "M33fArray", "Box2fArray", "C4cArray", "EulerdArray"]   # one per element family


def elem_maker(name):
    if name in SCALAR: return SCALAR[name]
    base = name[:-5]                                  # strip "Array"
    if base[0] == "C" and base[1] in "34": base = "Color" + base[1:]
    E = getattr(imath, base)
    if base[0] == "V" and base[1] in "234":
        n = int(base[1]); return lambda k: E(*[k + j for j in range(n)])
    if base.startswith("Color"):
        n = int(base[5]); return lambda k: E(*[k + j for j in range(n)])
    if base.startswith("Quat"): return lambda k: E(k, k + 1, k + 2, k + 3)
    if base.startswith("Euler"): return lambda k: E(k, k + 1, k + 2)
    if base.startswith("Box"):
        n = int(base[3]); V = getattr(imath, "V" + base[3:])
        return lambda k: E(V(*[k + j for j in range(n)]), V(*[k + n + j for j in range(n)]))
    if base[0] == "M":
        n = int(base[1]); return lambda k: E(*[k + j for j in range(n * n)])
    raise KeyError(name)


def all_1d_classes():
    out = []
    for n in sorted(dir(imath)):
        if not n.endswith("Array") or n in ("VIntArray", "VFloatArray", "VV2iArray", "VV2fArray"): continue
        try:
            elem_maker(n); getattr(imath, n)(1)
        except Exception:
            continue
        out.append(n)
    return out


# Strided component views: "V3fArray.y" is the FloatArray returned by V3fArray(n).y — it addresses every third float of the
# owner's storage (stride 3), so every index computation that forgets the stride lands in another component.
VIEW_SCALAR = {"V2fArray": "FloatArray", "V3fArray": "FloatArray", "V4fArray": "FloatArray", "V3dArray": "DoubleArray", "V3iArray": "IntArray", "V4sArray": "ShortArray",
               "C4fArray": "FloatArray", "C3cArray": "UnsignedCharArray"}
VIEW_CLASSES = ["V3fArray.y", "V3fArray.z", "V2fArray.x", "V4sArray.w", "V3dArray.y", "V3iArray.x", "C4fArray.a", "C3cArray.g"]


KEEP = []


class Codec:
    def __init__(self, name):
        self.view = None
        if "." in name:
            owner, comp = name.split(".")
            self.view = (getattr(imath, owner), comp, elem_maker(owner))
            self.name = name; self.C = getattr(imath, VIEW_SCALAR[owner]); self.mk = elem_maker(VIEW_SCALAR[owner]); self._k = {}
            self.is_class_elem = False
            self.has_ro = hasattr(self.C, "makeReadOnly")
            self.has_ifelse = hasattr(self.C, "ifelse")
            return
        self.name = name; self.C = getattr(imath, name); self.mk = elem_maker(name); self._k = {}
        self.is_class_elem = not isinstance(self.mk(1), (int, float, bool, str))
        self.has_ro = hasattr(self.C, "makeReadOnly")
        self.has_ifelse = hasattr(self.C, "ifelse")

    def key(self, k):                      # expected repr of element k
        r = self._k.get(k)
        if r is None: r = self._k[k] = repr(self.mk(k))
        return r

    def build(self, ks):
        if self.view:
            OC, comp, omk = self.view
            owner = OC(len(ks))
            for i in range(len(ks)): owner[i] = omk(100 + 10 * i)       # the other components hold unrelated values
            v = getattr(owner, comp)
            for i, k in enumerate(ks): v[i] = self.mk(k)
            try: v._verif_owner = owner                                   # keep the owner alive with the view
            except Exception: KEEP.append(owner)
            return v
        a = self.C(len(ks))
        for i, k in enumerate(ks): a[i] = self.mk(k)
        return a

    def keys(self, a):                     # observed contents, through len + integer __getitem__
        return [repr(a[i]) for i in range(len(a))]

    def want(self, ks): return [self.key(k) for k in ks]


# Integer indices far outside any array: values that still fit a C int / a Py_ssize_t, and values that do not fit a
# Py_ssize_t at all (converting those fails, and a binding that ignores the failure goes on with the error value -1).
HUGE = [2**31 - 1, -2**31, 2**31, -2**31 - 1, 2**32, 2**32 + 1, -2**32, 2**63 - 1, -2**63, 2**63, -2**63 - 1, 2**64, -2**64, 2**64 + 1]


def huge_class(k):
    if -2**31 <= k < 2**31: return "int-range"
    if -2**63 <= k < 2**63: return "ssize-range"
    return "overflowing"


def int_array(vals):
    m = imath.IntArray(len(vals))
    for i, v in enumerate(vals): m[i] = v
    return m


def masks_of(n):
    for bits in range(1 << n):
        yield [(bits >> i) & 1 for i in range(n)]


def collect():
    gc.collect(); gc.collect()
