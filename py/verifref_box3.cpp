#include "verifref_box.hpp"
BOOST_PYTHON_MODULE (verifref_box3)
{
    vr::box3_refs<short> ("Box3s");
    vr::box3_refs<int> ("Box3i");
    vr::box3_refs<int64_t> ("Box3i64");
    vr::box3_refs<float> ("Box3f");
    vr::box3_refs<double> ("Box3d");
}
