"""C19 exploration 5: the buffer interface, both directions. Every case runs in its own forked child, so that
std::terminate, a segfault or an AddressSanitizer abort is an observed outcome of that case.

Export: for every exporting class, n in 0..4, for a writable array, a read-only array, a masked reference and (vector
classes) a strided component view: memoryview(a) must have nbytes == prod(shape)*itemsize == len(tobytes()), a format of
that item size, C-contiguous strides for arrays created from Python, tolist() equal to the contents, readonly == not
a.writable(); a 1-D writable view writes through; a request for a *writable* buffer (io readinto) fills a writable array
and never modifies a read-only one. A read-only array, a masked reference and a strided component view may raise instead of exporting -- never die.

Import: every ...ArrayFromBuffer x every source {array('b','h','i','q','f','d'), bytes, 2-D casts, strided views, imath
arrays} x lengths 0..6 (run_import), and x every first-dimension slice [a:b:s] (s in +-1,+-2,+-3) of a 1-D / (6,W) buffer of every element
type and of every exporting imath class (run_rows: rows skipped or reversed, each row dense). If the source matches (same format and item size, C-contiguous, 1-D for scalar arrays / (n,W) for
vector arrays) the result holds exactly the source elements. Otherwise the call must raise; we also accept a result
whose flattened elements are numerically exactly the source's (nothing lost, nothing invented), and anything for an empty source.
"""
import array, io, struct
import imath
from c19_common import run_case, int_array, ASAN

EXPORT_FMT = {"UnsignedCharArray": ("B", 1, 1), "IntArray": ("i", 4, 1), "FloatArray": ("f", 4, 1), "DoubleArray": ("d", 8, 1)}
for _w in (2, 3, 4):
    for _s, _f, _z in (("s", "h", 2), ("i", "i", 4), ("i64", "l", 8), ("f", "f", 4), ("d", "d", 8)):
        EXPORT_FMT["V%d%sArray" % (_w, _s)] = (_f, _z, _w)


def exporters():
    out = []
    for name in sorted(EXPORT_FMT):
        try:
            memoryview(getattr(imath, name)(1)); out.append(name)
        except TypeError:
            pass
    return out


def _mkelem(name, k):
    f, z, w = EXPORT_FMT[name]
    if w == 1: return float(k) if f in "fd" else k
    return getattr(imath, name[:-5])(*[k * 10 + c for c in range(w)])


def _model(name, n):
    f, z, w = EXPORT_FMT[name]
    conv = float if f in "fd" else int
    if w == 1: return [conv(k + 1) for k in range(n)]
    return [[conv((k + 1) * 10 + c) for c in range(w)] for k in range(n)]


def _build(name, n):
    a = getattr(imath, name)(n)
    for k in range(n): a[k] = _mkelem(name, k + 1)
    return a


def SPARSE(n): return [1 - (i & 1) for i in range(n)]          # 1010..: the selected elements are not a prefix of the storage


def export_case(name, n, variant):
    a = _build(name, n)
    keep = a
    if variant == "read-only": a.makeReadOnly()
    elif variant == "masked-reference": a = a[int_array([1] * n)]
    elif variant == "masked-reference-sparse": a = a[int_array(SPARSE(n))]
    elif variant == "component": a = a.x
    elif variant == "component-of-masked-reference": a = a[int_array(SPARSE(n))].x
    mv = memoryview(a)
    info = {"format": mv.format, "itemsize": mv.itemsize, "ndim": mv.ndim, "shape": tuple(mv.shape), "strides": tuple(mv.strides),
            "nbytes": mv.nbytes, "readonly": mv.readonly, "writable": a.writable(), "tobytes": len(mv.tobytes()), "tolist": mv.tolist()}
    if mv.ndim == 1 and not mv.readonly and len(a):
        mv[len(a) - 1] = 77
        info["after-write"] = repr(a[len(a) - 1])
    return info


def readinto_case(name, n, readonly):
    a = _build(name, n)
    f, z, w = EXPORT_FMT[name]
    before = [repr(a[k]) for k in range(n)]
    if readonly: a.makeReadOnly()
    raw = struct.pack("%d%s" % (n * w, f), *[(5 + q) for q in range(n * w)])
    try:
        got = io.BytesIO(raw).readinto(a)
    except Exception as e:
        got = "raised " + type(e).__name__
    after = [repr(a[k]) for k in range(n)]
    flat = []
    for k in range(n):
        e = a[k]
        flat += [e] if w == 1 else [e[c] for c in range(w)]
    return {"ret": got, "before": before, "after": after, "flat": flat, "want": [float(5 + q) if f in "fd" else 5 + q for q in range(n * w)], "nbytes": len(raw)}


def run_export(R):
    R.declare("buf.export.masked-reference-sparse", "buf.export.component-of-masked-reference")
    R.declare("buf.export.scalar-array", "buf.export.vector-array", "buf.export.read-only", "buf.export.masked-reference", "buf.export.component-view",
              "buf.export.writable-request")
    names = run_case(exporters)[1]
    R.note("buffer-exporting classes", ",".join(names))
    for name in names:
        f, z, w = EXPORT_FMT[name]
        kind = "scalar" if w == 1 else "vec"
        for n in range(5):
            for variant in ("writable", "read-only", "masked-reference", "masked-reference-sparse") + (("component", "component-of-masked-reference") if w > 1 and f in "ifd" else ()):
                if R.out_of_time(): return False
                R.add("states"); R.add("transitions")
                R.cls({"writable": "buf.export.scalar-array" if w == 1 else "buf.export.vector-array", "read-only": "buf.export.read-only",
                       "masked-reference": "buf.export.masked-reference", "component": "buf.export.component-view",
                       "masked-reference-sparse": "buf.export.masked-reference-sparse", "component-of-masked-reference": "buf.export.component-of-masked-reference"}[variant])
                inp = "memoryview(%s %s(%d))" % (variant, name, n)
                k, v = run_case(export_case, name, n, variant)
                if k == "fatal":
                    R.fail("buf.export.%s.fatal" % {"writable": "array", "read-only": "readonly-array", "masked-reference": "masked-reference", "component": "component-view"}.get(variant, variant),
                           inp, "a memoryview or a Python exception", v); continue
                if k == "exc":
                    if variant != "writable" and not v.startswith("ArgumentError"): continue     # may refuse to export
                    R.fail("buf.export.%s.exception" % variant, inp, "a memoryview", v); continue
                iscomp = variant in ("component", "component-of-masked-reference")
                pre = {"component": "buf.export.component-view.", "component-of-masked-reference": "buf.export.component-of-masked-reference.",
                       "masked-reference-sparse": "buf.export.masked-reference-sparse."}.get(variant, "buf.export.")
                sparse = variant in ("masked-reference-sparse", "component-of-masked-reference")
                selidx = [i for i in range(n) if SPARSE(n)[i]] if sparse else list(range(n))
                nn, n_all = len(selidx), n
                cw = 1 if iscomp else w
                shape = (nn,) if cw == 1 else (nn, cw)
                prod = nn * cw
                if v["itemsize"] != z or struct.calcsize(v["format"] or "B") != z:
                    R.fail(pre + "format", inp, "item size %d" % z, (v["format"], v["itemsize"]))
                if v["shape"] != shape or v["ndim"] != len(shape):
                    R.fail(pre + "shape", inp, shape, (v["ndim"], v["shape"]))
                if sparse:
                    pass                                    # a sparse selection has no constant stride: whatever is exported must read the right elements
                elif not iscomp:
                    cs = (z,) if w == 1 else (w * z, z)
                    if v["strides"] != cs: R.fail(pre + "strides", inp, cs, v["strides"])
                else:
                    if v["strides"] != (w * z,): R.fail(pre + "strides", inp, (w * z,), v["strides"])
                if v["nbytes"] != prod * z or (not iscomp and v["tobytes"] != prod * z):
                    R.fail(pre + ("len" if iscomp or sparse else "len." + kind), inp, "nbytes == len(tobytes()) == prod(shape)*itemsize == %d" % (prod * z), "nbytes=%d len(tobytes())=%d" % (v["nbytes"], v["tobytes"]))
                want = [_model(name, n_all)[i] for i in selidx]
                if iscomp: want = [r[0] for r in want]
                if v["tolist"] != want: R.fail(pre + "contents", inp, want, v["tolist"])
                if v["readonly"] != (not v["writable"]): R.fail(pre + "readonly-flag", inp, not v["writable"], v["readonly"])
                if "after-write" in v and v["after-write"] not in ("77", "77.0"): R.fail(pre + "write-through", inp + "[n-1]=77", 77, v["after-write"])
            for ro in (False, True):
                if R.out_of_time(): return False
                R.add("transitions"); R.cls("buf.export.writable-request")
                inp = "io.BytesIO(packed %d items).readinto(%s %s(%d))" % (n * w, "read-only" if ro else "writable", name, n)
                k, v = run_case(readinto_case, name, n, ro)
                if k == "fatal":
                    R.fail("buf.export.writable-request.%s.fatal" % ("readonly-array" if ro else "array"), inp, "bytes copied into a writable array / a read-only array left alone", v)
                elif k == "exc":
                    R.fail("buf.export.writable-request.exception", inp, "", v)
                elif ro:
                    if v["after"] != v["before"]: R.fail("buf.export.writable-request.readonly-array.modified", inp, v["before"], v["after"])
                else:
                    # len (d) decides how many bytes the consumer may write, so a short len shows up here as a short read
                    if v["ret"] != v["nbytes"] or v["flat"] != v["want"]:
                        R.fail("buf.export.len." + kind, inp, (v["nbytes"], v["want"]), "short read (the consumer trusts the exported len): " + repr((v["ret"], v["flat"])))
    return True


# ---------------------------------------------------------------------------------------------------- import
FROM = {}
for _p, _f, _z in (("Int", "i", 4), ("Float", "f", 4), ("Double", "d", 8)): FROM[_p + "ArrayFromBuffer"] = (_f, _z, 1)
for _w in (2, 3, 4):
    for _s, _f, _z in (("i", "i", 4), ("f", "f", 4), ("d", "d", 8)): FROM["V%d%sArrayFromBuffer" % (_w, _s)] = (_f, _z, _w)


def sources():
    """(description, maker) for every source object; maker() -> object supporting the buffer protocol."""
    out = []
    for tc in "bhiqfd":
        for L in range(7):
            out.append(("array('%s', 1..%d)" % (tc, L), ("array", tc, L)))
    for L in range(7): out.append(("bytes(1..%d)" % L, ("bytes", L)))
    for tc in "ifd":
        for c in (2, 3, 4):
            for r in (1, 2):
                out.append(("array('%s') cast to shape (%d,%d)" % (tc, r, c), ("cast", tc, r, c)))
        for L in (2, 3):
            out.append(("memoryview(array('%s', 1..%d))[::2]" % (tc, 2 * L), ("strided", tc, 2 * L)))
    for nm, n in (("IntArray", 3), ("FloatArray", 2), ("DoubleArray", 2), ("UnsignedCharArray", 4), ("V2iArray", 2), ("V3fArray", 2), ("V3dArray", 1), ("V4fArray", 1)):
        out.append(("imath.%s(%d)" % (nm, n), ("imath", nm, n)))
    return out


def make_source(spec):
    k = spec[0]
    conv = lambda tc, v: float(v) if tc in "fd" else v
    if k == "array": return array.array(spec[1], [conv(spec[1], v) for v in range(1, spec[2] + 1)])
    if k == "bytes": return bytes(range(1, spec[1] + 1))
    if k == "cast":
        tc, r, c = spec[1:]
        base = array.array(tc, [conv(tc, v) for v in range(1, r * c + 1)])
        return memoryview(base).cast("B").cast(tc, shape=[r, c])
    if k == "strided":
        tc, L = spec[1:]
        return memoryview(array.array(tc, [conv(tc, v) for v in range(1, L + 1)]))[::2]
    if k == "imath":
        if spec[1] in EXPORT_FMT: return _build(spec[1], spec[2])
        a = getattr(imath, spec[1])(spec[2])
        for q in range(spec[2]): a[q] = getattr(imath, spec[1][:-5])(*[(q + 1) * 10 + c for c in range(int(spec[1][1]))])
        return a
    raise AssertionError(spec)


def _flat(x):
    out = []
    for e in x:
        if isinstance(e, (list, tuple)): out += _flat(e)
        else: out.append(e)
    return out


def describe_source(spec):
    """Runs in a child too (exporting an imath array is itself under test)."""
    src = make_source(spec)
    try:
        mv = memoryview(src)
    except TypeError:
        return None
    return {"format": mv.format, "itemsize": mv.itemsize, "ndim": mv.ndim, "shape": tuple(mv.shape), "contig": mv.c_contiguous,
            "nbytes_true": mv.itemsize * (len(_flat(mv.tolist())) if mv.ndim else 1), "flat": _flat(mv.tolist())}


def import_case(fname, spec, w):
    src = make_source(spec)
    r = getattr(imath, fname)(src)
    n = len(r)
    flat = []
    for q in range(n):
        e = r[q]
        flat += [e] if w == 1 else [e[c] for c in range(w)]
    return n, flat


def run_import(R):
    R.declare("buf.import.matching", "buf.import.mismatch.oversize-source", "buf.import.mismatch.other", "buf.import.noncontiguous", "buf.import.empty-source", "buf.import.no-buffer")
    srcs = sources()
    desc = {}
    for d, spec in srcs:
        k, v = run_case(describe_source, spec)
        desc[d] = v if k == "ok" else None
    for fname in sorted(FROM):
        f, z, w = FROM[fname]
        for d, spec in srcs:
            if R.out_of_time(): return False
            R.add("states"); R.add("transitions")
            inp = "imath.%s(%s)" % (fname, d)
            sd = desc[d]
            k, v = run_case(import_case, fname, spec, w)
            if sd is None:                                 # the source does not export a buffer at all: must raise
                R.cls("buf.import.no-buffer")
                if k != "exc": R.fail("buf.FromBuffer.no-buffer-object", inp, "an exception", v)
                continue
            nelem = len(sd["flat"])
            fmt_ok = sd["format"] in (f, "@" + f) and sd["itemsize"] == z
            shape_ok = (sd["ndim"] == 1) if w == 1 else (sd["ndim"] == 2 and sd["shape"][1] == w)
            alloc = (sd["shape"][0] if sd["ndim"] else 0) * w * z        # what an array of shape[0] elements can hold
            if nelem == 0:
                R.cls("buf.import.empty-source")
                if k == "fatal": R.fail("buf.FromBuffer.empty-source.fatal", inp, "an empty array or an exception", v)
                elif k == "ok" and v[1]: R.fail("buf.FromBuffer.empty-source.invented-elements", inp, "an empty array or an exception", v)
                continue
            if fmt_ok and shape_ok and sd["contig"]:
                R.cls("buf.import.matching")
                want_n = sd["shape"][0]
                if k == "fatal": R.fail("buf.FromBuffer.matching.fatal", inp, (want_n, sd["flat"]), v)
                elif k == "exc": R.fail("buf.FromBuffer.matching.rejected", inp, (want_n, sd["flat"]), v)
                elif v[0] != want_n or v[1] != sd["flat"]:
                    # an imath vector array as source goes through the library's own export first; a truncated copy is the export's len relation failing
                    if spec[0] == "imath" and sd["ndim"] == 2:
                        R.fail("buf.export.len.vec", inp, (want_n, sd["flat"]), "truncated copy (the constructor trusts the len exported by the source array): " + repr(v))
                    else:
                        R.fail("buf.FromBuffer.matching.wrong-elements", inp, (want_n, sd["flat"]), v)
                continue
            if not sd["contig"]:
                R.cls("buf.import.noncontiguous"); site = "buf.FromBuffer.noncontiguous-source"
            elif sd["nbytes_true"] > alloc:
                R.cls("buf.import.mismatch.oversize-source"); site = "buf.FromBuffer.mismatch.oversize-source"
            else:
                R.cls("buf.import.mismatch.other"); site = "buf.FromBuffer.mismatch"
            exp = "an exception (format %r itemsize %d shape %r%s does not describe %s elements)" % (
                sd["format"], sd["itemsize"], sd["shape"], "" if sd["contig"] else " non-contiguous", fname[:-15] if w > 1 else f)
            if k == "exc": continue
            if k == "fatal":
                R.fail(site + (".fatal" if site != "buf.FromBuffer.mismatch.oversize-source" else ""), inp, exp, v)
            elif v[1] == sd["flat"]:
                continue                                    # lenient: exactly the source elements, nothing lost or invented
            else:
                R.fail(site + (".accepted" if site != "buf.FromBuffer.mismatch.oversize-source" else ""), inp, exp,
                       "returned %d elements %r for source elements %r" % (v[0], v[1][:8], sd["flat"][:8]))
    return True


# ---------------------------------------------------------------------------------------------------- import, 2-D sources of the right scalar type x every row width
# A vector-array constructor V<w><t>ArrayFromBuffer given a C-contiguous 2-D buffer of shape (r, c) of ITS OWN scalar type t. The
# elements of such a source are its r rows of c scalars (c*itemsize bytes each); the elements of the target are w scalars.
# Oracle (a priori, from the statement: "copies exactly the source elements, rejecting buffers whose element type or size does not
# match"): c == w -> a matching source: r elements, element q == row q exactly. c != w -> the element size does not match: the call
# must RAISE - also (and in particular) when the total r*c happens to be a multiple of w, where a constructor that derives the
# element count from the byte length would silently re-interpret the data as r*c/w vectors with components shifted across rows
# (nothing is read out of bounds there, so no sanitizer sees it, and the flattened scalars are all "there", which is why the
# lenient flat-equality acceptance of run_import above must not be applied to this class).
# Space: every V2/V3/V4 constructor of every element type x r in 1..6 x c in {2,3,4} x {array cast to (r,c), memoryview of the
# imath V<c><t>Array(r)}.
WIDTH_ROWS = range(1, 7)


def width_sources(tc):
    out = []
    sfx = {"i": "i", "f": "f", "d": "d"}[tc]
    for r in WIDTH_ROWS:
        for c in (2, 3, 4):
            out.append(("array('%s') cast to shape (%d,%d)" % (tc, r, c), ("cast", tc, r, c), r, c, False))
            out.append(("memoryview(imath.V%d%sArray(%d))" % (c, sfx, r), ("imathmv", "V%d%sArray" % (c, sfx), r), r, c, True))
    return out


def make_width_source(spec):
    if spec[0] == "imathmv": return memoryview(_build(spec[1], spec[2]))
    return make_source(spec)


def describe_width_source(spec):
    mv = memoryview(make_width_source(spec))
    return {"format": mv.format, "itemsize": mv.itemsize, "ndim": mv.ndim, "shape": tuple(mv.shape), "contig": mv.c_contiguous, "flat": _flat(mv.tolist())}


def width_import_case(fname, spec, w):
    src = make_width_source(spec)
    r = getattr(imath, fname)(src)
    n = len(r)
    return n, [[r[q][c] for c in range(w)] for q in range(n)]


def run_widths(R):
    R.declare("buf.import.row-width.matching", "buf.import.row-width.mismatch.total-divisible-by-width", "buf.import.row-width.mismatch.total-not-divisible",
              "buf.import.row-width.imath-vector-array-source")
    ncase = 0
    for fname in sorted(FROM):
        f, z, w = FROM[fname]
        if w == 1: continue
        for d, spec, r, c, isim in width_sources(f):
            if R.out_of_time(): return False
            inp = "imath.%s(%s)" % (fname, d)
            k0, sd = run_case(describe_width_source, spec)
            # the source must be what it is meant to be (an imath export that is not is judged by buf.export.*)
            if k0 != "ok" or sd["format"] not in (f, "@" + f) or sd["itemsize"] != z or sd["ndim"] != 2 or sd["shape"] != (r, c) or not sd["contig"] or len(sd["flat"]) != r * c:
                if not isim: R.fail("buf.FromBuffer.row-width.harness-exception", inp, "a C-contiguous (%d,%d) buffer of format %r" % (r, c, f), sd)
                continue
            R.add("states"); R.add("transitions"); ncase += 1
            if isim: R.cls("buf.import.row-width.imath-vector-array-source")
            rows = [sd["flat"][q * c:(q + 1) * c] for q in range(r)]
            k, v = run_case(width_import_case, fname, spec, w)
            if c == w:
                R.cls("buf.import.row-width.matching")
                if k == "fatal": R.fail("buf.FromBuffer.row-width.matching.fatal", inp, (r, rows), v)
                elif k == "exc": R.fail("buf.FromBuffer.row-width.matching.rejected", inp, (r, rows), v)
                elif v[0] != r or v[1] != rows: R.fail("buf.FromBuffer.row-width.matching.wrong-elements", inp, (r, rows), v)
                continue
            div = (r * c) % w == 0
            R.cls("buf.import.row-width.mismatch.total-divisible-by-width" if div else "buf.import.row-width.mismatch.total-not-divisible")
            exp = "an exception (rows of %d %r items do not describe %s elements of %d)" % (c, f, fname[:-15], w)
            if k == "exc": continue
            if k == "fatal": R.fail("buf.FromBuffer.row-width-mismatch.fatal", inp, exp, v)
            else:
                R.fail("buf.FromBuffer.row-width-mismatch.accepted" + (".reinterpreted-as-total-over-width" if div and v[0] == r * c // w else ""), inp, exp,
                       "returned %d elements %r for source rows %r" % (v[0], v[1][:6], rows[:6]))
    R.note("buffer row-width cases", ncase)
    return True


# ---------------------------------------------------------------------------------------------------- import, sources strided along the FIRST dimension
# A buffer may be non-contiguous in its first dimension only: memoryview(x)[a:b:s] of a 1-D array, or of a 2-D (rows, W) array whose
# rows stay dense (strides = (s*W*itemsize, itemsize), negative for s < 0, buf pointing at the first SELECTED row). A constructor that
# looks only at shape / len / the innermost stride takes such a source for a contiguous one and memcpy's shape[0] CONSECUTIVE rows
# starting at buf: other rows than the selected ones and, for a negative stride, bytes past the end of the exporter's memory.
#
# Oracle (a priori, from the statement: "copies exactly the source elements, rejecting buffers whose element type or size does not match
# instead of reading or writing out of bounds"): the call either raises, or returns an array of exactly shape[0] elements holding exactly
# the SELECTED rows (computed here from the slice on a Python list of rows, not from the library). A selection that is C-contiguous
# (step 1 sub-range, or a single row) of a matching type is a matching source and must be copied. Nothing else is demanded.
ROWS = 6
ROW_TYPES = [("h", 2), ("i", 4), ("l", 8), ("f", 4), ("d", 8)]       # short / int / int64 ('l' is 8 bytes on LP64, the format the int64 arrays export) / float / double


def row_selections(R=ROWS):
    """One slice per distinct selected index tuple of range(R), over start,stop in {None,0..R}, step in {None,+-1,+-2,+-3}."""
    seen, out = set(), []
    for step in (None, 1, 2, 3, -1, -2, -3):
        for start in [None] + list(range(R + 1)):
            for stop in [None] + list(range(R + 1)):
                idx = tuple(range(R)[slice(start, stop, step)])
                if idx in seen: continue
                seen.add(idx); out.append(((start, stop, step), idx))
    return out


def sel_class(idx):
    if len(idx) == 0: return "empty"
    if len(idx) == 1: return "single-row"
    d = idx[1] - idx[0]
    return "contiguous" if d == 1 else ("forward" if d > 1 else "reversed")


def _slice_txt(sl):
    return "[%s:%s%s]" % ("" if sl[0] is None else sl[0], "" if sl[1] is None else sl[1], "" if sl[2] is None else ":%d" % sl[2])


def row_value(tc, r, c): return float((r + 1) * 10 + c) if tc in "fd" else (r + 1) * 10 + c


def row_bases(thorough):
    """(description, spec, tc, itemsize, width) of every base whose first dimension is then sliced. width 1 = 1-D."""
    out = []
    for tc, z in ROW_TYPES:
        for w in (1, 2, 3, 4):
            if w == 1: out.append(("memoryview(array('%s', %d items))" % (tc, ROWS), ("rows", tc, 1), tc, z, 1))
            else: out.append(("memoryview(array('%s') cast to shape (%d,%d))" % (tc, ROWS, w), ("rows", tc, w), tc, z, w))
    # the library's own exports as bases: memoryview(V3fArray(6))[::2] ...
    for nm in sorted(EXPORT_FMT):
        f, z, w = EXPORT_FMT[nm]
        if f == "B": continue
        out.append(("memoryview(imath.%s(%d))" % (nm, ROWS), ("imathrows", nm), f, z, w))
    return out


def make_row_source(spec, sl):
    if spec[0] == "rows":
        tc, w = spec[1:]
        base = array.array(tc, [row_value(tc, r, c) for r in range(ROWS) for c in range(w)])
        mv = memoryview(base)
        if w > 1: mv = mv.cast("B").cast(tc, shape=[ROWS, w])
    else:
        nm = spec[1]
        f, z, w = EXPORT_FMT[nm]
        a = getattr(imath, nm)(ROWS)
        for r in range(ROWS):
            a[r] = row_value(f, r, 0) if w == 1 else getattr(imath, nm[:-5])(*[(r + 1) * 10 + c for c in range(w)])
        mv = memoryview(a)
    return mv[slice(*sl)]


def describe_row_source(spec, sl):
    mv = make_row_source(spec, sl)
    return {"format": mv.format, "itemsize": mv.itemsize, "ndim": mv.ndim, "shape": tuple(mv.shape), "strides": tuple(mv.strides),
            "contig": mv.c_contiguous, "flat": _flat(mv.tolist())}


def row_import_case(fname, spec, sl, w):
    src = make_row_source(spec, sl)
    r = getattr(imath, fname)(src)
    n = len(r)
    flat = []
    for q in range(n):
        e = r[q]
        flat += [e] if w == 1 else [e[c] for c in range(w)]
    return n, flat


def row_item(item, t):
    """One constructor x every base x every selection (runs in a fork_map worker; every call in its own grandchild)."""
    fname, thorough = item
    f, z, w = FROM[fname]
    for bdesc, bspec, tc, bz, bw in row_bases(thorough):
        type_ok = (tc == f and bz == z and bw == w)
        for sl, idx in row_selections():
            kind = sel_class(idx)
            # quick: the whole selection alphabet on the bases of this constructor's own element type and width; three
            # representative selections (every other row, reversed, inner sub-range) on the bases that mismatch anyway
            if not type_ok and not thorough and sl not in ((None, None, 2), (None, None, -1), (2, 5, None)): continue
            inp = "imath.%s(%s%s)" % (fname, bdesc, _slice_txt(sl))
            want = [row_value(tc, r, c) for r in idx for c in range(bw)]
            k0, sd = run_case(describe_row_source, bspec, sl)
            if k0 != "ok":
                if bspec[0] == "imathrows": continue          # the export of that class is judged by the export exploration
                t.fail("buf.FromBuffer.row-strided-source.harness-exception", inp, "a sliced memoryview", sd); continue
            if sd["flat"] != want or sd["shape"][0] != len(idx):
                if bspec[0] == "imathrows": continue          # ditto: a wrong export is reported by buf.export.*
                t.fail("buf.FromBuffer.row-strided-source.harness-exception", inp, want, sd); continue
            t.add("states"); t.add("transitions")
            # the judgement uses what the source actually exports (as run_import does), not what the base was meant to be
            type_ok = (sd["format"] in (f, "@" + f) and sd["itemsize"] == z and
                       ((sd["ndim"] == 1) if w == 1 else (sd["ndim"] == 2 and sd["shape"][1] == w)))
            k, v = run_case(row_import_case, fname, bspec, sl, w)
            if kind == "empty":
                t.cls("buf.import.rows.empty-selection")
                if k == "fatal": t.fail("buf.FromBuffer.empty-source.fatal", inp, "an empty array or an exception", v)
                elif k == "ok" and v[1]: t.fail("buf.FromBuffer.empty-source.invented-elements", inp, "an empty array or an exception", v)
                continue
            if not type_ok:
                # element type, item size or width differ: must raise whatever the strides (lenient as in run_import: an exact copy of the values passes)
                t.cls("buf.import.rows.mismatching-type-or-width")
                exp = "an exception (format %r itemsize %d shape %r strides %r does not describe %s elements)" % (sd["format"], sd["itemsize"], sd["shape"], sd["strides"], fname[:-15] if w > 1 else f)
                if k == "fatal": t.fail("buf.FromBuffer.row-strided-source.mismatching-type.fatal", inp, exp, v)
                elif k == "ok" and v[1] != want: t.fail("buf.FromBuffer.row-strided-source.mismatching-type.accepted", inp, exp, "returned %d elements %r" % (v[0], v[1][:12]))
                continue
            dim = "1d" if w == 1 else "2d"
            if sd["contig"]:
                # dense selection of the right type: a matching source, must be copied exactly
                t.cls("buf.import.rows.contiguous-subrange" if kind == "contiguous" else "buf.import.rows.single-row")
                if k == "fatal": t.fail("buf.FromBuffer.matching.fatal", inp, (len(idx), want), v)
                elif k == "exc": t.fail("buf.FromBuffer.matching.rejected", inp, (len(idx), want), v)
                elif v[0] != len(idx) or v[1] != want:
                    if bspec[0] == "imathrows" and w > 1: t.fail("buf.export.len.vec", inp, (len(idx), want), "truncated copy (the constructor trusts the len exported by the source array): " + repr(v))
                    else: t.fail("buf.FromBuffer.matching.wrong-elements", inp, (len(idx), want), v)
                continue
            t.cls("buf.import.rows.%s-stride.%s" % (kind, dim))
            if bspec[0] == "imathrows": t.cls("buf.import.rows.strided-view-of-imath-array")
            exp = "an exception, or exactly the %d selected rows %r" % (len(idx), want[:12])
            site = "buf.FromBuffer.row-strided-source.%s.%s" % (dim, kind)
            if k == "exc": continue
            if k == "fatal": t.fail(site + ".fatal", inp, exp, v)
            elif v[0] != len(idx) or v[1] != want:
                t.fail(site + ".wrong-rows", inp, exp, "returned %d elements %r (strides %r)" % (v[0], v[1][:12], sd["strides"]))


ROW_CLASSES = ["buf.import.rows.empty-selection", "buf.import.rows.mismatching-type-or-width", "buf.import.rows.contiguous-subrange", "buf.import.rows.single-row",
               "buf.import.rows.forward-stride.1d", "buf.import.rows.reversed-stride.1d", "buf.import.rows.forward-stride.2d", "buf.import.rows.reversed-stride.2d",
               "buf.import.rows.strided-view-of-imath-array"]


def run_rows(R, thorough):
    from c19_common import fork_map
    R.declare(*ROW_CLASSES)
    items = [(fname, thorough) for fname in sorted(FROM)]
    ok = fork_map(row_item, items, R, "buf.FromBuffer.row-strided-source.worker.fatal", describe=lambda it: it[0])
    nsel = len(row_selections())
    msg = ("%d constructors x %d bases (array('h','i','l','f','d') as 1-D and cast to (%d,2|3|4); every exporting imath array class) x %s; "
           "%d distinct first-dimension selections = all slices with start,stop in {None,0..%d}, step in {None,+-1,+-2,+-3}; one forked child per case" %
           (len(items), len(row_bases(thorough)), ROWS, "every selection" if thorough else "every selection on the bases of the constructor's own type and width, 3 on the others", nsel, ROWS))
    (R.stage_done if ok else R.stage_partial)(msg)


def run(R, thorough):
    ok = run_export(R)
    ok = ok and run_import(R)
    ok = ok and run_widths(R)
    R.sample("imath.IntArrayFromBuffer(array('d', 1..3)); memoryview(read-only IntArray(3)); memoryview(V3fArray(3)).nbytes")
    msg = ("export: %d classes x n 0..4 x {writable, read-only, masked reference, component view} + writable-buffer requests; import: %d constructors x %d sources; one forked child per case" %
           (len(run_case(exporters)[1]), len(FROM), len(sources())))
    msg += ("; row widths: every V2/V3/V4 constructor x C-contiguous (r,c) sources of its own scalar type, r in 1..6, c in {2,3,4} (array casts and memoryviews of the "
            "imath V<c> arrays): accepted element-exact iff c == width, otherwise an exception")
    (R.stage_done if ok else R.stage_partial)(msg)
