#include "verifref_matrix.hpp"
BOOST_PYTHON_MODULE (verifref_m44d)
{
    vr::m44_refs<double> ("M44d");
}
