#include "verifref_vec.hpp"
BOOST_PYTHON_MODULE (verifref_vec2)
{
    vr::vec2_refs<short> ("V2s");
    vr::vec2_refs<int> ("V2i");
    vr::vec2_refs<int64_t> ("V2i64");
    vr::vec2_refs<float> ("V2f");
    vr::vec2_refs<double> ("V2d");
}
