#!/usr/bin/env python3.11
"""C20, last clause — "... and the scalar bindings return what the C++ library returns."

Exhaustive differential check of every SCALAR (non-array) entry point of the built `imath` module against reference
functions that call the Imath library directly (py/verifref_<family>.cpp, Boost.Python modules `verifref_*`; they share the
converters the imath module registers, nothing else).

Discovery    every attribute the non-array classes register themselves (methods, operators, static methods, constructors,
             properties) and every module-level function, with its overloads parsed from the Boost.Python docstring
             signatures ("[...]" optional tails expanded); overloads that mention a FixedArray belong to c20_explore.
Reference    binding overload <Class>.<m>(T1..Tn) is covered iff some verifref module exports a function named
             "<Class>__<m>" ("imath__<f>" for module functions; constructors "<Class>____init__"; property getter
             (self) / setter (self, value) under the attribute's name) having an overload with exactly the same C++
             parameter types.  Every overload without one is listed in the report note "overloads_without_reference".
Arguments    per C++ parameter type a small stated alphabet (quick; thorough adds the values after "+"):
               float/double   {P (a distinct prime per argument position; P+0.5 at odd positions), 0, 1, -1, 0.375, -7, tiny, large
                               + 0.1, -0.0, 3, -large, 2^-140}; tiny/large = 2^-70/2^60 (float), 2^-520/2^500 (double): tiny^2
                               underflows, 4*large^2 does not overflow
               int/long/short {P, 0, 1, -1, -7, 10007 + 3, -10009}; unsigned char {P, 0, 1, 255, 128 + 7, 254}; bool {True, False};
                               indices of __getitem__/__setitem__ {0..n-1, -1, -n, n, -n-1}; row/column indices of minors {0..n-1}
               VecN<T>        {G1=(2,3,5,7), G2=(-11,13,0.5,-19), 0, e_x, -G1, G1*tiny, G1*large + (0.1,0.2,0.3,0.7), -e_y, (1,..,1),
                               2*G1, G1*2^-140}; integer T: {G1, (-11,13,4,-19), 0, e_x, -G1, (10007,-10009,10037,-10039)
                               [500000003.. for int64] + ...}; unsigned char: {G1,(11,13,17,19),0,e_x,(255,254,251,250),(128,127,129,126)}
               MatrixNN<T>    {generic (all entries distinct primes*0.25, diagonal prime+8), identity, zero, rank n-1, affine
                               (last column 0..0 1), scale diag(2,3,5,1), symmetric generic, rotation by 90 deg about z + translation
                               + reflection, generic*tiny, generic*large, -generic}
               Quat {(2,3,5,7), (-11,13,.5,-19), identity, zero, unit (.5,.5,.5,.5), its negative, (0,1,0,0) + ...};  Box {generic,
               empty, point, overlapping, disjoint, inverted on x, infinite};  Euler {same angles in orders XYZ, ZYX, XYX, XYZr, zero,
               angles > pi in YXZ, gimbal (y = pi/2), ZXZr};  Color = Vec alphabet + one colour per hue sector, grey, hue 1;  Shear6,
               Line3 (incl. zero direction, parallel, opposite, non-unit), Plane3 (incl. zero normal, non-unit, opposite), Frustum
               (default-like, asymmetric, orthographic, near==far, left==right, far<near), Rand {seeds 0,1,42,2^31+5,0xdeadbeefcafe};
               tuple/list operands: the owner's vector alphabet as sequences, a 1-sequence and one of wrong length; object operands:
               the kinds the binding documents (same class, int/float/double vectors, tuples, lists, numbers) AND, wherever a vector is
               accepted through an `object` parameter or inside a tuple (M33/M44 translate/setTranslation/rotationMatrix[WithUpDir],
               V /= obj, V(obj), equalWith*Error, Box((lo,hi)), Frustum.projectPointToScreen), an instance of EVERY registered vector
               class of that dimension (V?s, V?i, V?i64, V?f, V?d, V?c) with conversion-separating components (VECTOR_OBJECT_COMPONENTS:
               type extremes, int64 beyond 2^31 / 2^53 / not a float, doubles that are not floats, non-integral floats); the reference
               converts the same object with the library's converting constructor. A class outside the binding's documented kinds may
               be rejected by the binding (counted), but a returned result must still equal the reference.
               module-level functions: number_alphabet + FUN_EXTREMES (denorm_min, min, 2^+-100, 2^1000 / 2^127, max, negatives), full product.
             Class-typed values are built component-wise by verifref_core._make (not by the bindings' constructors).
             <= 3 parameters: full product; more: every tuple at most 2 positions away from the default (first alphabet value of
             each position). ALIASED: every later parameter of self's class is also passed as the very same Python object as self.
Overloading  Boost.Python tries the overloads of a name last-registered-first; the driver simulates that for the binding and
             for the reference and only compares argument tuples that resolve, on both sides, to the SAME parameter type list
             (tuples that resolve elsewhere are counted as "shadowed", never as a violation).
Comparison   binding and reference run on independent copies (verifref_core._clone) of the same operands; the return value
             and every operand afterwards must agree BITWISE (verifref_core._bits reads the C++ object; all NaNs are one
             value: the library does not specify NaN payloads) and so must raising-vs-returning.
Not generated (counted "excluded_undefined"): integer division by zero, float->integer conversion out of range,
             signed overflow — the library's behaviour is undefined there.
Binding contracts that deliberately differ from the library are stated in BINDING_CONTRACT and checked as such.
"""
import collections, itertools, json, math, os, re, struct, sys, time, traceback, glob, importlib

sys.path.insert(0, os.path.dirname(os.path.abspath(__file__)))
import imath
import c20_explore as X

R = X.R
NPROC = int(os.environ.get("VERIF_THREADS", "16"))
SITE = "scalar-binding-differs-from-library:"

# per-family registries (key: python class name without its element-type suffix, e.g. "V3", "M44", "Box2", "Quat")
EXTRA_COMPONENTS = {}      # -> function(pyname, elem) -> component lists for verifref_core._make (first = generic distinct primes)
OBJECT_VALUES = {}         # -> function(group, overload index, pos) -> values for a boost::python::object parameter
PARAM_HOOKS = {}           # -> function(group, overload index, pos, type) -> alphabet | None (= use the default)
EXCLUDED = {}              # -> function(group, overload index, values) -> reason the library's behaviour is undefined | None
CONTRACTS = {}             # -> function(group, overload index, values) -> reason the BINDING must raise by its own contract | None
TOLERANCE = {}             # -> function(group, overload index, values) -> absolute tolerance (a-priori, see the function) | None = bitwise

# ------------------------------------------------------------------------------------------------
# reference modules
# ------------------------------------------------------------------------------------------------
import verifref_core as CORE


HELPERS = {}               # functions of the reference modules whose name starts with "_": library predicates used by the guards


def load_refs():
    refs, mods, clashes = {}, [], []
    seen = set()
    for d in sys.path:
        for f in sorted(glob.glob(os.path.join(d, "verifref_*.so"))):
            name = os.path.basename(f)[:-3]
            if name in seen or name == "verifref_core":
                continue
            seen.add(name)
            m = importlib.import_module(name)
            mods.append(name)
            for k, v in vars(m).items():
                if k.startswith("_") and not k.startswith("__") and callable(v):
                    HELPERS[k] = v
                if k.startswith("_") or not callable(v):
                    continue
                if k in refs:
                    clashes.append(k)
                refs[k] = v
    return refs, mods, clashes


REFS, REF_MODULES, REF_CLASHES = load_refs()

# ------------------------------------------------------------------------------------------------
# signatures
# ------------------------------------------------------------------------------------------------
SIG_RE = re.compile(r"C\+\+ signature :\s*\n\s*(.+)")
NS = re.search(r"(Imath_\d+_\d+)::", imath.V3f.dot.__doc__).group(1)


def parse_sig(line):
    """'RET name(A,B [,C [,D]])' -> (ret, name, [overload arg lists])"""
    line = line.strip()
    i = line.rindex(")")
    depth = 0
    for j in range(i, -1, -1):
        if line[j] == ")":
            depth += 1
        elif line[j] == "(":
            depth -= 1
            if depth == 0:
                break
    head = line[:j].strip()
    k = head.rindex(" ")
    ret, name = head[:k].strip(), head[k + 1:]
    toks, cuts, cur, d = [], [], "", 0
    for ch in line[j + 1:i]:
        if ch in "<(":
            d += 1
        elif ch in ">)":
            d -= 1
        if ch == "[" and d == 0:
            cuts.append(len(toks) + (1 if cur.strip() else 0))
            continue
        if ch == "]" and d == 0:
            continue
        if ch == "," and d == 0:
            if cur.strip():
                toks.append(cur.strip())
            cur = ""
        else:
            cur += ch
    if cur.strip():
        toks.append(cur.strip())
    toks = [t.split("=")[0].strip() for t in toks]
    return ret, name, [toks[:c] for c in cuts] + [toks]


def norm(t):
    t = t.replace("{lvalue}", "").replace("const ", "").replace("&", "").strip()
    t = re.sub(r"\s+", "", t)
    t = t.replace("unsignedchar", "unsigned char").replace("unsignedint", "unsigned int").replace("unsignedlong", "unsigned long").replace("unsignedshort", "unsigned short")
    if t == "_object*":
        t = "boost::python::api::object"
    return t


def short_t(t):
    return norm(t).replace(NS + "::", "").replace("boost::python::", "").replace("api::object", "object")


# C++ type <-> python class
def _cpp_names():
    m = {}
    elem = {"s": "short", "i": "int", "i64": "long", "f": "float", "d": "double", "c": "unsigned char"}
    for cn in dir(imath):
        c = getattr(imath, cn)
        if not isinstance(c, type):
            continue
        mm = re.match(r"^V([234])(s|i64|i|f|d|c)$", cn)
        if mm:
            m["%s::Vec%s<%s>" % (NS, mm.group(1), elem[mm.group(2)])] = c; continue
        mm = re.match(r"^Color([34])(c|f)$", cn)
        if mm:
            m["%s::Color%s<%s>" % (NS, mm.group(1), elem[mm.group(2)])] = c; continue
        mm = re.match(r"^M(22|33|44)(f|d)$", cn)
        if mm:
            m["%s::Matrix%s<%s>" % (NS, mm.group(1), elem[mm.group(2)])] = c; continue
        mm = re.match(r"^(Quat|Euler|Shear6|Line3|Plane3|Frustum|FrustumTest)(f|d)$", cn)
        if mm:
            m["%s::%s<%s>" % (NS, mm.group(1), elem[mm.group(2)])] = c; continue
        mm = re.match(r"^Box([23])(s|i64|i|f|d)$", cn)
        if mm:
            m["%s::Box<%s::Vec%s<%s>>" % (NS, NS, mm.group(1), elem[mm.group(2)])] = c; continue
        if cn in ("Rand32", "Rand48"):
            m["%s::%s" % (NS, cn)] = c
    return m


CPP2PY = _cpp_names()
PY2CPP = {v.__name__: k for k, v in CPP2PY.items()}
ENUMS = {NS + "::Euler<float>::Order": "Order", NS + "::Euler<float>::Axis": "Axis", NS + "::Euler<float>::InputLayout": "InputLayout"}

INT_RANGE = {"int": (-2 ** 31, 2 ** 31 - 1), "long": (-2 ** 63, 2 ** 63 - 1), "short": (-2 ** 15, 2 ** 15 - 1), "unsigned char": (0, 255),
             "unsigned int": (0, 2 ** 32 - 1), "unsigned long": (0, 2 ** 64 - 1), "unsigned short": (0, 65535), "char": (-128, 127), "signed char": (-128, 127)}
FLT = ("float", "double")


def accepts(nt, v):
    """would Boost.Python's from-python conversion for parameter type nt take the python value v?"""
    tv = type(v)
    if nt in FLT:
        return tv in (float, int, bool) or (isinstance(v, int) and not isinstance(v, type))
    if nt in INT_RANGE:
        return isinstance(v, int) and INT_RANGE[nt][0] <= int(v) <= INT_RANGE[nt][1]
    if nt == "bool":
        return isinstance(v, int) or v is None
    if nt == "boost::python::api::object":
        return True
    if nt == "boost::python::tuple":
        return isinstance(v, tuple)
    if nt == "boost::python::list":
        return isinstance(v, list)
    if nt == "boost::python::dict":
        return isinstance(v, dict)
    if nt == "boost::python::str" or nt.startswith("std::"):
        return isinstance(v, str)
    c = CPP2PY.get(nt)
    if c is not None:
        return isinstance(v, c)
    if nt in ENUMS:
        return type(v).__name__ == ENUMS[nt]
    return False


def resolve(ovs, vals):
    """index of the overload Boost.Python dispatches to: last registered first, first whose parameters all convert"""
    n = len(vals)
    for k in range(len(ovs) - 1, -1, -1):
        a = ovs[k]
        if len(a) == n and all(accepts(t, v) for t, v in zip(a, vals)):
            return k
    return None


# ------------------------------------------------------------------------------------------------
# discovery
# ------------------------------------------------------------------------------------------------
ARRAYISH = re.compile(r"(Array|Array2D|Matrix)$")
SKIP_ATTRS = {"__module__", "__doc__", "__instance_size__", "__reduce__", "__weakref__", "__dict__", "__safe_for_unpickling__", "__getstate_manages_dict__"}


class Group:
    """all overloads registered under one name of one owner"""
    __slots__ = ("owner", "name", "kind", "ovs", "rets", "ref", "ref_ovs", "idx", "unparsed")

    def __init__(self, owner, name, kind):
        self.owner, self.name, self.kind = owner, name, kind
        self.ovs, self.rets, self.ref, self.ref_ovs, self.unparsed = [], [], None, [], 0

    def refname(self):
        return (self.owner if self.owner else "imath") + "__" + self.name

    def label(self, k):
        return "%s%s(%s)" % (self.owner + "." if self.owner else "", self.name, ",".join(short_t(t) for t in self.ovs[k]))


def doc_overloads(doc):
    out = []
    for m in SIG_RE.finditer(doc or ""):
        try:
            ret, _, lists = parse_sig(m.group(1))
        except ValueError:
            continue
        for a in lists:
            out.append((ret, a))
    return out


def discover():
    groups, arrayish_overloads = [], 0
    for cn in sorted(dir(imath)):
        c = getattr(imath, cn)
        if isinstance(c, type):
            if ARRAYISH.search(cn) or c.__module__ != "imath":
                continue
            for an in sorted(c.__dict__):
                if an in SKIP_ATTRS:
                    continue
                a = c.__dict__[an]
                if isinstance(a, property):
                    selft = PY2CPP.get(cn, cn)
                    g = Group(cn, an, "getter")
                    ov = doc_overloads(getattr(a.fget, "__doc__", None))
                    g.ovs = [[norm(t) for t in o[1]] for o in ov] or [[selft]]
                    g.rets = [o[0] for o in ov] or ["?"]
                    groups.append(g)
                    if a.fset is not None:
                        g = Group(cn, an, "setter")
                        ov = doc_overloads(getattr(a.fset, "__doc__", None))
                        g.ovs = [[norm(t) for t in o[1]] for o in ov]      # may be empty: filled from the reference's signature
                        g.rets = ["void"] * len(g.ovs)
                        groups.append(g)
                    continue
                kind = "method"
                if isinstance(a, staticmethod):
                    a, kind = a.__func__, "static"
                if an == "__init__":
                    kind = "init"
                if not callable(a):
                    continue
                ov = doc_overloads(getattr(a, "__doc__", None))
                if not ov:
                    continue
                g = Group(cn, an, kind)
                for ret, args in ov:
                    if kind == "init":
                        args = args[1:]
                    g.ovs.append([norm(t) for t in args]); g.rets.append(ret)
                groups.append(g)
        elif callable(c) and not cn.startswith("_"):
            ov = doc_overloads(getattr(c, "__doc__", None))
            if not ov:
                continue
            g = Group("", cn, "function")
            for ret, args in ov:
                g.ovs.append([norm(t) for t in args]); g.rets.append(ret)
            groups.append(g)
    out = []
    for g in groups:
        rn = g.refname()
        if g.kind == "setter":
            rn = g.owner + "__" + g.name
        f = REFS.get(rn)
        if f is not None:
            g.ref = rn
            rov = [[norm(t) for t in a] for _, a in doc_overloads(f.__doc__)]
            if g.kind == "getter":
                rov = [a for a in rov if len(a) == 1]
            if g.kind == "setter":
                rov = [a for a in rov if len(a) == 2]
                if not g.ovs:
                    g.ovs, g.rets = [list(a) for a in rov], ["void"] * len(rov)
            g.ref_ovs = rov
        if g.kind == "setter" and not g.ovs:
            g.ovs, g.rets = [[PY2CPP.get(g.owner, g.owner), "?"]], ["void"]
        out.append(g)
    for i, g in enumerate(out):
        g.idx = i
    return out


def is_array_overload(args, ret):
    return any("FixedArray" in t or "FixedMatrix" in t for t in list(args) + [ret])


# ------------------------------------------------------------------------------------------------
# ALPHABETS
# ------------------------------------------------------------------------------------------------
PRIMES = [2, 3, 5, 7, 11, 13, 17, 19, 23, 29, 31, 37, 41, 43, 47, 53, 59, 61, 67, 71]
THOROUGH = R.thorough()


def elem_of(pyname):
    for suf, t in (("i64", "long"), ("s", "short"), ("i", "int"), ("f", "float"), ("d", "double"), ("c", "unsigned char")):
        if pyname.endswith(suf):
            return t
    return None


def flt_scale(t):
    """(tiny, large): tiny*tiny underflows the type (the library's lengthTiny/… paths), large*large*4 does not overflow"""
    return (2.0 ** -70, 2.0 ** 60) if t == "float" else (2.0 ** -520, 2.0 ** 500)


def number_alphabet(t, pos):
    """alphabet of a numeric parameter at argument position pos; the first value (the default) is a distinct prime per position"""
    p = PRIMES[pos % len(PRIMES)]
    if t in FLT:
        tiny, large = flt_scale(t)
        a = [p + 0.5 if pos % 2 else float(p), 0.0, 1.0, -1.0, 0.375, -7.0, tiny, large]
        if THOROUGH:
            a += [0.1, -0.0, 3.0, -large, 2.0 ** -140]
        return a
    if t == "bool":
        return [True, False]
    if t == "unsigned char":
        return [p, 0, 1, 255, 128] + ([7, 254] if THOROUGH else [])
    if t in ("unsigned int", "unsigned long", "unsigned short"):
        return [p, 0, 1, 40503] + ([65535] if THOROUGH else [])
    if t in INT_RANGE:
        return [p, 0, 1, -1, -7, 10007] + ([3, -10009] if THOROUGH else [])
    raise KeyError(t)


def vec_components(n, t):
    g1 = PRIMES[:n]
    if t in FLT:
        tiny, large = flt_scale(t)
        a = [g1, [-11.0, 13.0, 0.5, -19.0][:n], [0] * n, [1] + [0] * (n - 1), [-x for x in g1], [x * tiny for x in g1], [x * large for x in g1]]
        if THOROUGH:
            a += [[0.1, 0.2, 0.3, 0.7][:n], ([0, -1, 0, 0])[:n], [1] * n, [2 * x for x in g1], [x * 2.0 ** -140 for x in g1]]
        return [[float(x) for x in v] for v in a]
    if t == "unsigned char":
        a = [g1, [11, 13, 17, 19][:n], [0] * n, [1] + [0] * (n - 1), [255, 254, 251, 250][:n], [128, 127, 129, 126][:n]]
        return a
    big = {"short": 10007, "int": 10007, "long": 500000003}[t]
    a = [g1, [-11, 13, 4, -19][:n], [0] * n, [1] + [0] * (n - 1), [-x for x in g1], [big, -big - 2, big + 30, -big - 32][:n]]
    if THOROUGH:
        a += [[1] * n, [0, -1, 0, 0][:n], [2 * x for x in g1]]
    return a


def matrix_components(n, t):
    tiny, large = flt_scale(t)
    gen = []
    for r in range(n):
        for c in range(n):
            p = PRIMES[r * n + c]
            gen.append(float(p) + 8.0 if r == c else (0.25 * p if (r + c) % 2 else -0.25 * p))
    ident = [1.0 if r == c else 0.0 for r in range(n) for c in range(n)]
    zero = [0.0] * (n * n)
    sing = list(gen)
    for c in range(n):
        sing[(n - 1) * n + c] = 2.0 * sing[c]                       # last row = 2 * first row: rank n-1
    aff = list(gen)
    for r in range(n):
        aff[r * n + n - 1] = 1.0 if r == n - 1 else 0.0             # last column (0,..,0,1): affine
    scale = [float(PRIMES[r]) if r == c else 0.0 for r in range(n) for c in range(n)]
    if n > 2:
        scale[-1] = 1.0
    sym = [gen[min(r, c) * n + max(r, c)] for r in range(n) for c in range(n)]
    a = [gen, ident, zero, sing, aff, scale, sym]
    if n > 2:
        # exact rotation by 90 degrees about z with a translation (orthonormal linear part)
        rot = list(ident)
        rot[0], rot[1], rot[n], rot[n + 1] = 0.0, 1.0, -1.0, 0.0
        rot[(n - 1) * n], rot[(n - 1) * n + 1] = 3.0, -5.0
        a.append(rot)
    if THOROUGH:
        refl = list(aff); refl[0] = -refl[0]
        a += [refl, [x * tiny for x in gen], [x * large for x in gen], [-x for x in gen]]
    return a


def class_components(pyname):
    """component lists (arguments of verifref_core._make) of the alphabet of an imath class; None if there is none"""
    t = elem_of(pyname)
    m = re.match(r"^V([234])", pyname)
    if m:
        return vec_components(int(m.group(1)), t)
    m = re.match(r"^M(22|33|44)[fd]$", pyname)
    if m:
        return matrix_components(int(m.group(1)[0]), t)
    f = EXTRA_COMPONENTS.get(re.sub(r"(i64|s|i|f|d|c)$", "", pyname))
    if f:
        return f(pyname, t)
    return None




def color_components(pyname, t):
    n = int(pyname[5])
    a = vec_components(n, t)
    # one colour per hue sector of hsv2rgb, grey (sat 0), hue exactly 1
    if t in FLT:
        a += [[h, 0.25, 0.75, 0.5][:n] for h in (0.1, 0.3, 0.45, 0.6, 0.8, 0.95, 1.0)] + [[0.5, 0.0, 0.75, 1.0][:n], [0.25, 0.25, 0.25, 1.0][:n]]
    else:
        a += [[h, 64, 191, 128][:n] for h in (25, 76, 115, 153, 204, 242)] + [[64, 64, 64, 255][:n]]
    return a


EXTRA_COMPONENTS["Color3"] = color_components
EXTRA_COMPONENTS["Color4"] = color_components


def quat_components(pyname, t):
    a = [[2.0, 3.0, 5.0, 7.0], [-11.0, 13.0, 0.5, -19.0], [1.0, 0.0, 0.0, 0.0], [0.0, 0.0, 0.0, 0.0], [0.5, 0.5, 0.5, 0.5], [-0.5, -0.5, -0.5, -0.5],
         [0.0, 1.0, 0.0, 0.0]]
    if THOROUGH:
        tiny, large = flt_scale(t)
        a += [[0.5, -0.5, 0.5, -0.5], [-2.0, -3.0, -5.0, -7.0], [x * tiny for x in (2.0, 3.0, 5.0, 7.0)], [x * large for x in (2.0, 3.0, 5.0, 7.0)], [0.6, 0.0, 0.8, 0.0]]
    return a


EXTRA_COMPONENTS["Quat"] = quat_components


def box_components(pyname, t):
    n = int(pyname[3])
    if t in FLT:
        lo, hi = {"float": (-3.4028234663852886e38, 3.4028234663852886e38), "double": (-1.7976931348623157e308, 1.7976931348623157e308)}[t]
    else:
        lo, hi = INT_RANGE[t]
    g = PRIMES
    a = [[-x for x in g[:n]] + g[3:3 + n],                      # generic: min=(-2,-3,-5) max=(7,11,13)
         [hi] * n + [lo] * n,                                   # empty (makeEmpty)
         g[:n] + g[:n],                                         # a single point
         [1] * n + [x + 20 for x in g[:n]],                     # overlaps the generic box
         [x + 40 for x in g[:n]] + [x + 60 for x in g[:n]],     # disjoint from the generic box
         [5] + [-x for x in g[1:n]] + [-5] + g[4:3 + n],        # inverted on x only (min.x > max.x)
         [lo] * n + [hi] * n]                                   # infinite (makeInfinite)
    if t == "long":
        # corners beyond 2^31 and 2^53 that are not the type's extremes: Box?<other>(Box?i64) converts them component-wise
        a.append([-(2 ** 40 + 3), -5, -2 ** 33][:n] + [2 ** 40 + 3, 2 ** 53 + 1, 2 ** 33][:n])
    if t in FLT:
        a = [[float(x) for x in v] for v in a]
    return a


EXTRA_COMPONENTS["Box2"] = box_components
EXTRA_COMPONENTS["Box3"] = box_components

_CLASS_ALPHABET = {}


# ---- vector OBJECTS passed through a boost::python::object parameter (or inside a tuple) -------------------------------
# A binding that takes "any vector" through an `object` parameter (M33/M44 translate / setTranslation / rotationMatrix[WithUpDir],
# V /= obj, V(obj), equalWith*Error(obj, e), Box((lo, hi)), Frustum.projectPointToScreen) converts the operand with hand-written,
# per-source-class code (PyImath::V2/V3/V4<T>::convert and the constructors' extract<> chains): one copy per source class.  The
# alphabet of such a parameter therefore holds instances of EVERY vector class of that dimension the module registers, and for every
# class values that separate "converted component-wise from the full-width source" (the library's converting constructor, which is
# what the reference calls) from a conversion through a narrower or less precise intermediate:
#   short / unsigned char   the extremes of the type;       int   INT_MIN, INT_MAX
#   int64                   components beyond 2^31 (lost through an int), not representable in a float (2^24+1), beyond 2^53 (not
#                           representable in a double), 2^63-1
#   float                   not representable as an int (0.1f, -1/3, a subnormal), beyond the int range (3e9)
#   double                  not representable as a float (0.1, 1+2^-40, 2^53+2, 2^-1030 which is 0 as a float)
# Undefined inputs stay excluded by excluded(): a float/double component that does not fit an integral owner type, and a divisor
# component that is 0 after the (implementation-defined, modular) narrowing of an integer to a smaller integral owner type.
def _f32(x):
    return struct.unpack("<f", struct.pack("<f", x))[0]


VECTOR_OBJECT_COMPONENTS = collections.OrderedDict([
    ("s", [[2, 3, 5, 7], [-32768, 32767, -11, 13]]),
    ("c", [[2, 3, 5, 7], [255, 128, 7, 254]]),
    ("i", [[2, 3, 5, 7], [-2 ** 31, 2 ** 31 - 1, 10007, -10009]]),
    ("i64", [[2, 3, 5, 7], [2 ** 40 + 3, 5, -2 ** 33, 2 ** 31], [2 ** 31, -2 ** 31 - 1, 2 ** 32 + 7, -(2 ** 31 + 5)],
             [2 ** 53 + 1, -(2 ** 62 + 3), 2 ** 24 + 1, 2 ** 63 - 1]]),
    ("f", [[2.0, 3.0, 5.0, 7.0], [_f32(0.1), _f32(-1.0 / 3.0), 2.0 ** -130, 3.0e9], [16777216.0, -2.5, 100000.0, 7.75]]),
    ("d", [[2.0, 3.0, 5.0, 7.0], [0.1, -1.0 / 3.0, float(2 ** 53 + 2), 2.0 ** -1030], [1.0 + 2.0 ** -40, -2.5, 123456789.0, 7.75]]),
])
_VECTOR_OBJECTS = {}


def vector_objects(n):
    """[(class suffix, object)] : every registered vector class of dimension n x its component lists above"""
    if n not in _VECTOR_OBJECTS:
        out = []
        for suf, comps in VECTOR_OBJECT_COMPONENTS.items():
            cn = "V%d%s" % (n, suf)
            if isinstance(getattr(imath, cn, None), type):
                out += [(suf, CORE._make(cn, c[:n])) for c in comps]
        _VECTOR_OBJECTS[n] = out
    return _VECTOR_OBJECTS[n]


def vector_kind(v):
    """class suffix ('s','i','i64','f','d','c') and dimension of an imath vector object, else None"""
    m = re.match(r"^V([234])(s|i64|i|f|d|c)$", type(v).__name__)
    return (m.group(2), int(m.group(1))) if m and type(v).__module__ == "imath" else None


SUFFIX_OF = {"short": "s", "int": "i", "long": "i64", "float": "f", "double": "d", "unsigned char": "c"}


def binding_accepts_vector_kind(g, kind, dim):
    """Operand classes the BINDING documents for its generic-vector parameters (read off the anchored code, PyImathVec.h
    V2/V3/V4<T>::convert and the extract<> chains of the Vec constructors / equalWith*Error): its own element type, int, float and
    double vectors everywhere; int64 vectors where the parameter goes through V2<T>::convert / V3<T>::convert.  For any OTHER
    registered vector class the binding may raise (it is outside the binding's domain: counted, never a violation) — but if it
    returns, it must return what the library's converting constructor gives, like for every accepted class."""
    own = SUFFIX_OF.get(elem_of(g.owner))
    if kind == own or kind in ("i", "f", "d"):
        return True
    if kind == "i64":
        fam = family_of(g.owner)
        if fam in ("M33", "M44", "Frustum", "Box2", "Box3"):
            return True
        return fam in ("V2", "V3") and g.name in ("__idiv__", "__itruediv__")
    return False


def foreign_vector_operand(g, vals):
    """suffix of a vector-object operand (top level or inside a tuple/list) of a class the binding does not document, else None"""
    def walk(v, depth):
        vk = vector_kind(v)
        if vk:
            return None if binding_accepts_vector_kind(g, vk[0], vk[1]) else vk[0]
        if type(v) in (tuple, list) and depth < 2:
            for e in v:
                r = walk(e, depth + 1)
                if r:
                    return r
        return None
    start = 0 if g.kind in ("init", "function", "static") else 1
    for v in vals[start:]:
        r = walk(v, 0)
        if r:
            return r
    return None


def vector_operand_classes(g, k, vals):
    """outcome classes (predicates on the INPUT) for vector objects that reach a generic `object` / tuple parameter"""
    out = set()
    nt = g.ovs[k]
    own = SUFFIX_OF.get(elem_of(g.owner))
    for pos, v in enumerate(vals):
        if nt[pos] not in ("boost::python::api::object", "boost::python::tuple"):
            continue
        for e in ([v] if vector_kind(v) else (list(v) if type(v) is tuple else [])):
            vk = vector_kind(e)
            if not vk:
                continue
            out.add("object-operand:vector-of-class-V?%s" % vk[0])
            if vk[0] != own:
                out.add("object-operand:vector-of-another-element-type")
            nums = flat_numbers(e)
            if vk[0] == "i64":
                if any(abs(x) >= 2 ** 31 for x in nums):
                    out.add("object-operand:int64-component-beyond-int32")
                if any(abs(x) > 2 ** 53 for x in nums):
                    out.add("object-operand:int64-component-beyond-2^53")
            if vk[0] == "d" and any(_f32(x) != x for x in nums):
                out.add("object-operand:double-component-not-a-float")
            if vk[0] in ("f", "d") and any(x != int(x) for x in nums):
                out.add("object-operand:floating-component-not-an-integer")
    return out


# ---- Matrix22/33/44 -----------------------------------------------------------------------------
def matrix_param(g, k, pos, nt):
    n = int(g.owner[1])
    t = elem_of(g.owner)
    vdim = n - 1 if n > 2 else 2
    vname = "V%d%s" % (vdim, "f" if t == "float" else "d")
    if nt == "int":
        if g.name in ("minorOf", "fastMinor"):
            idx = list(range(n))
            r = (pos - 1) % n
            return idx[r:] + idx[:r]              # valid row/column indices only (anything else indexes out of bounds)
        return [1, 0]                             # exc flags
    if nt == "boost::python::tuple":
        if g.kind == "init":
            comps = matrix_components(n, t)
            rows = [tuple(comps[0][(pos % n) * n:(pos % n) * n + n]), tuple(comps[1][(pos % n) * n:(pos % n) * n + n]), tuple([0.0] * n), tuple(comps[3][(n - 1) * n:]),
                    tuple([1.0] * (n + 1))]
            return rows
        vals = [tuple(c) for c in vec_components(vdim, t)[:5]] + [tuple([2.0] * (vdim + 1))]
        if g.name in ("shear", "setShear") and n == 4:
            vals += [(2.0, 3.0, 5.0, 7.0, 11.0, 13.0), (0.0, 0.0, 0.0, 0.0, 0.0, 0.5)]
        return vals
    if nt == "boost::python::api::object":
        vals = list(class_alphabet(vname)[:5])
        for suf in ("f", "d", "i", "i64"):
            oc = "V%d%s" % (vdim, suf)
            if oc != vname:
                vals += class_alphabet(oc)[:2]
        vals += [tuple(c) for c in vec_components(vdim, t)[:2]] + [list(vec_components(vdim, t)[1])]
        vals += [o for _, o in vector_objects(vdim)]          # every registered vector class of that dimension, conversion-separating values
        return vals
    return None


def matrix_contract(g, k, vals):
    if g.name == "symmetricEigensolve":
        # documented: "This function will return an error if passed an unsymmetric matrix"
        m = flat_numbers(vals[0])
        n = int(g.owner[1])
        tol = math.sqrt(2.0 ** -23 if elem_of(g.owner) == "float" else 2.0 ** -52)
        for i in range(n):
            for j in range(i + 1, n):
                d = abs(m[i * n + j] - m[j * n + i])
                if d != d or d >= 2 * tol:
                    return "documented: unsymmetric matrix is an error"
                if d >= tol / 2:
                    return None
    return None


def matrix_excluded(g, k, vals):
    if g.name == "symmetricEigensolve":
        m = flat_numbers(vals[0])
        n = int(g.owner[1])
        if any(m[i * n + j] != m[j * n + i] for i in range(n) for j in range(n)):
            return "symmetricEigensolve is specified for symmetric matrices only"
    if g.owner.startswith("M33") and g.name in ("extractSHRT", "extractScalingAndShear", "extractAndRemoveScalingAndShear") and type(vals[-1]) is int and vals[-1] == 0:
        if not HELPERS["_%s_decomposable" % g.owner](vals[0]):
            return "outputs are unspecified when the decomposition fails without an exception"
    return None


# ---- Box2/Box3 -----------------------------------------------------------------------------------
def box_param(g, k, pos, nt):
    n = int(g.owner[3])
    t = elem_of(g.owner)
    if nt == "boost::python::tuple":
        vals = [tuple(as_numbers(c, t)) for c in vec_components(n, t)[:5]]
        vals.append(tuple(as_numbers(vec_components(n, t)[0], t)) + (1,))
        if g.kind == "init" and len(g.ovs[k]) == 1:
            va = class_alphabet("V%d%s" % (n, g.owner[4:]))
            vals += [(va[4], va[0]), (va[0], va[1]), (vals[4], vals[0]), (va[2], vals[1])]
            # Box((lo, hi)) converts each corner like a generic vector parameter: every registered class as lo, and as hi
            for _, o in vector_objects(n):
                vals += [(o, va[0]), (va[1], o)]
        return vals
    return None


def box_excluded(g, k, vals):
    t = elem_of(g.owner)
    if t not in INT_RANGE:
        return None
    lo, hi = INT_RANGE[t]
    if t == "short":
        lo, hi = INT_RANGE["int"]                 # short arithmetic is done in int and converted back (implementation-defined, not undefined)
    if g.name in ("size", "majorAxis", "center", "hasVolume"):
        c = flat_numbers(vals[0])
        n = len(c) // 2
        for i in range(n):
            if not lo <= c[n + i] - c[i] <= hi or not lo <= c[n + i] + c[i] <= hi:
                return "signed integer overflow"
    if g.name in ("__mul__", "__imul__"):
        m = flat_numbers(vals[1])
        if any(abs(x) > 1024 or x != int(x) for x in m) or [m[3], m[7], m[11], m[15]] != [0, 0, 0, 1]:
            return "float->integer conversion out of range"
        c = flat_numbers(vals[0])
        if any(abs(x) > 2 ** 15 for x in c) and not (c[0] > c[3] or c[1] > c[4] or c[2] > c[5]):
            return "float->integer conversion out of range"
    return None


# ---- Euler -----------------------------------------------------------------------------------------
EULER_ORDERS = [int(getattr(imath, n)) for n in ("EULER_XYZ", "EULER_ZYX", "EULER_XYX", "EULER_XYZr", "EULER_ZXZr", "EULER_YXZ")]


def euler_components(pyname, t):
    o = EULER_ORDERS
    return [[0.25, 0.5, -0.75, o[0]], [0.25, 0.5, -0.75, o[1]], [0.25, 0.5, -0.75, o[2]], [0.25, 0.5, -0.75, o[3]], [0.0, 0.0, 0.0, o[0]],
            [4.0, -5.0, 7.0, o[5]], [0.5, 1.5707963267948966, 0.25, o[0]], [-0.125, 2.0, 3.0, o[4]]]


def euler_param(g, k, pos, nt):
    if nt == "int":
        if g.kind == "init":
            # (…, int order [, int layout]): legal Order values / the two InputLayout values
            nints = sum(1 for t in g.ovs[k] if t == "int")
            last_int = max(i for i, t in enumerate(g.ovs[k]) if t == "int")
            if nints == 2 and pos == last_int:
                return [1, 0]
            return list(EULER_ORDERS)
        return [1, 0]
    if nt == "boost::python::tuple":
        return [(0.25, 0.5, -0.75), (0.0, 0.0, 0.0), (4.0, -5.0, 7.0), (1.0, 2.0)]
    return None


EXTRA_COMPONENTS["Euler"] = euler_components
PARAM_HOOKS["Euler"] = euler_param


# ---- Color3/Color4, Shear6 ---------------------------------------------------------------------------
def color_excluded(g, k, vals):
    if g.name == "hsv2rgb" and elem_of(g.owner) in FLT:
        h = flat_numbers(vals[0])
        if h and type(h[0]) is float and abs(h[0]) >= 2.0 ** 27:
            return "double->int conversion out of range (hue sector)"
    return None


EXCLUDED["Color3"] = EXCLUDED["Color4"] = color_excluded


def shear_components(pyname, t):
    tiny, large = flt_scale(t)
    g1 = [2.0, 3.0, 5.0, 7.0, 11.0, 13.0]
    return [g1, [-17.0, 19.0, 0.5, -23.0, 29.0, -31.0], [0.0] * 6, [1.0, 0.0, 0.0, 0.0, 0.0, 0.0], [-x for x in g1], [x * tiny for x in g1], [x * large for x in g1]]


def shear_param(g, k, pos, nt):
    if nt == "int" and g.name in ("__getitem__", "__setitem__") and pos == 1:
        # Shear6::operator[] does no range check: only valid indices for __getitem__; __setitem__ documents "Index out of range"
        return list(range(6)) + ([-1, 6] if g.name == "__setitem__" else [])
    if nt == "boost::python::tuple":
        comps = shear_components(g.owner, elem_of(g.owner))
        vals = [tuple(c) for c in comps[:5]] + [(2.0, 3.0, 5.0), (1.0, 2.0)]
        return vals
    return None


def shear_contract(g, k, vals):
    # tuple divisor / tuple dividend: "Division by Zero" is raised for a zero divisor component
    nt = g.ovs[k]
    if g.name in ("__div__", "__truediv__") and len(nt) == 2 and nt[1] == "boost::python::tuple" and len(vals[1]) == 6 and any(x == 0 for x in vals[1]):
        return "binding guards division by zero"
    if g.name in RDIV_NAMES and len(nt) == 2 and nt[1] == "boost::python::tuple" and len(vals[1]) == 6 and any(x == 0 for x in flat_numbers(vals[0])):
        return "binding guards division by zero"
    if g.name in RDIV_NAMES and len(nt) == 2 and nt[1] in FLT and all(x == 0 for x in flat_numbers(vals[0])):
        return "binding guards number / zero shear"          # (only the all-zero shear; a single zero component divides to inf like the library)
    return None


EXTRA_COMPONENTS["Shear6"] = shear_components
PARAM_HOOKS["Shear6"] = shear_param
CONTRACTS["Shear6"] = shear_contract

# ---- Line3, Plane3, Frustum, FrustumTest, Rand32/48, module functions -------------------------------------
def line_components(pyname, t):
    return [[2.0, 3.0, 5.0, 0.6, 0.8, 0.0], [0.0, 0.0, 0.0, 1.0, 0.0, 0.0], [-11.0, 13.0, 0.5, 0.0, 0.0, 1.0], [2.0, 3.0, 5.0, 0.0, 0.0, 0.0],
            [7.0, 11.0, 13.0, 0.6, 0.8, 0.0], [2.0, 3.0, 5.0, -0.6, -0.8, 0.0], [1.0, 1.0, 1.0, 2.0, 3.0, 5.0]]


def plane_components(pyname, t):
    return [[0.6, 0.8, 0.0, 2.5], [1.0, 0.0, 0.0, 0.0], [0.0, 0.0, 1.0, -7.0], [0.0, 0.0, 0.0, 1.0], [2.0, 3.0, 5.0, 7.0], [-0.6, -0.8, 0.0, -2.5]]


def frustum_components(pyname, t):
    a = [[0.125, 1024.0, -1.0, 1.0, 1.0, -1.0, 0], [2.0, 64.0, -3.0, 5.0, 7.0, -11.0, 0], [1.0, 128.0, -2.0, 3.0, 5.0, -7.0, 1], [1.0, 1.0, -1.0, 1.0, 1.0, -1.0, 0],
         [1.0, 2.0, 1.0, 1.0, 1.0, -1.0, 0], [8.0, 2.0, -1.0, 1.0, 1.0, -1.0, 0]]
    if THOROUGH:
        tiny, large = flt_scale(t)
        a += [[2.0 * tiny, 64.0 * tiny, -3.0 * tiny, 5.0 * tiny, 7.0 * tiny, -11.0 * tiny, 0], [2.0, large, -3.0, 5.0, 7.0, -11.0, 0], [2.0, 64.0, -3.0, 5.0, 7.0, 7.0, 1]]
    return a


def rand_components(pyname, t):
    return [[0], [1], [42], [2 ** 31 + 5], [0xdeadbeefcafe]]


EXTRA_COMPONENTS["Line3"] = line_components
EXTRA_COMPONENTS["Plane3"] = plane_components
EXTRA_COMPONENTS["Frustum"] = frustum_components
EXTRA_COMPONENTS["Rand32"] = EXTRA_COMPONENTS["Rand48"] = rand_components


def geom_param(g, k, pos, nt):
    t = elem_of(g.owner) or "float"
    if nt == "boost::python::tuple":
        n = 2 if g.name == "projectScreenToRay" else 3
        return [tuple(c) for c in vec_components(n, t)[:5]] + [tuple([2.0] * (n + 1))]
    if nt == "boost::python::api::object":
        if g.owner.startswith("Plane3"):
            return class_alphabet("Plane3f")[:3] + class_alphabet("Plane3d")[:3]
        if g.owner.startswith("Frustum"):
            return class_alphabet("V3f")[:4] + class_alphabet("V3d")[:2] + class_alphabet("V3i")[:2] + [(2.0, 3.0, 5.0), [7.0, 11.0, 13.0]] + [o for _, o in vector_objects(3)]
        return None
    if nt == "long":
        return [PRIMES[pos % len(PRIMES)], 0, 1, -1, -7, 10007]
    if nt == "unsigned long":
        return [PRIMES[pos % len(PRIMES)], 0, 1, 40503, 2 ** 40 + 3]
    return None


def frustum_excluded(g, k, vals):
    if g.name in ("DepthToZ", "ZToDepth", "screenRadius", "worldRadius"):
        f = flat_numbers_frustum(vals[0])
        if g.name == "DepthToZ":
            d = vals[1]
            ok = all(abs(x) <= 1024 for x in f[:2]) and abs(f[0] - f[1]) >= 1.0 / 1024 and 1.0 / 1024 <= abs(d) <= 1024 and all(abs(z) <= 2 ** 14 for z in vals[2:])
            if not ok:
                return "double->long conversion out of range"
    return None


def flat_numbers_frustum(f):
    b = CORE._bits(f)
    name, raw = b.split(b":", 1)
    fmt = "f" if name.endswith(b"f") else "d"
    return list(struct.unpack("<6" + fmt, raw[:6 * struct.calcsize(fmt)]))


# Module-level scalar functions (lerp, lerpfactor, clamp, cmp, cmpt, iszero, equal, abs, sign, sqrt, pow, exp, log, ...) are compared at
# the magnitudes at which a quotient, product, sum or difference of two arguments overflows, underflows or loses its last bit — where
# the library's guarded forms (lerpfactor: "return 0 if the quotient would overflow", ImathFun.h) differ from the plain expression:
#   double  2^-1074 (denorm_min), 2^-1022 (min), 2^-149, 2^-126 (the float ones, as doubles), 2^100, 2^1000, max, and three negatives
#   float   2^-149 (denorm_min), 2^-126 (min), 2^-100, 2^100, 2^127, max, and two negatives  (all exact floats: no conversion is undefined)
# on top of number_alphabet (P, 0, 1, -1, 0.375, -7, tiny, large).  Full product (all these functions have <= 3 arguments).
FUN_EXTREMES = {
    "double": [2.0 ** -1074, 2.0 ** -1022, 2.0 ** -149, 2.0 ** -126, 2.0 ** 100, 2.0 ** 1000, 1.7976931348623157e308, -2.0 ** -1022, -2.0 ** 1000, -1.7976931348623157e308],
    "float": [2.0 ** -149, 2.0 ** -126, 2.0 ** -100, 2.0 ** 100, 2.0 ** 127, 3.4028234663852886e38, -2.0 ** -126, -2.0 ** 100],
}


def fun_param(g, k, pos, nt):
    if nt in FLT:
        return number_alphabet(nt, pos) + FUN_EXTREMES[nt]
    return None


PARAM_HOOKS["module-functions"] = fun_param


def fun_classes(g, k, vals):
    """outcome classes (predicates on the INPUT) of a module-level function call"""
    out = set()
    nt = g.ovs[k]
    nums = [v for v, t in zip(vals, nt) if t in FLT and type(v) is float]
    if not nums:
        return out
    t = nt[[i for i, x in enumerate(nt) if x in FLT][0]]
    tmin, tmax = (2.0 ** -126, 3.4028234663852886e38) if t == "float" else (2.0 ** -1022, 1.7976931348623157e308)
    if any(0 < abs(x) < tmin for x in nums):
        out.add("module-function:subnormal-argument")
    if any(abs(x) == tmin for x in nums):
        out.add("module-function:argument-at-smallest-normal")
    if any(abs(x) == tmax for x in nums):
        out.add("module-function:argument-at-max")
    if any(abs(x) >= 2.0 ** 100 for x in nums) and any(0 < abs(x) <= 2.0 ** -100 for x in nums):
        out.add("module-function:huge-and-tiny-arguments-together")
    if g.name == "lerpfactor" and len(nums) == 3 and t == "double":
        m, a, b = nums
        d, n = b - a, m - a                        # python floats are the C doubles of the (double,double,double) overload
        if d != 0 and abs(d) <= 1 and abs(n) >= tmax * abs(d):
            out.add("module-function:lerpfactor-quotient-would-overflow (library returns 0)")
        if d == 0:
            out.add("module-function:lerpfactor-empty-span")
    return out


def fun_excluded(g, k, vals):
    nt = g.ovs[k]
    if g.name in ("floor", "ceil", "trunc") and abs(vals[0]) >= 2.0 ** 31 - 1:
        return "float->integer conversion out of range"
    if g.name in ("divs", "mods", "divp", "modp") and vals[1] == 0:
        return "integer division by zero"
    if g.name == "hsv2rgb":
        h = flat_numbers(vals[0])
        if abs(h[0]) >= 2.0 ** 27:
            return "double->int conversion out of range (hue sector)"
    return None


def line_excluded(g, k, vals):
    if g.name == "closestPoints" and len(vals) == 2 and not HELPERS["_%s_closestPoints_defined" % g.owner](vals[0], vals[1]):
        return "closestPoints leaves the points unset for parallel lines"
    return None


EXCLUDED["Line3"] = line_excluded
for _p in ("Line3", "Plane3", "Frustum", "FrustumTest", "Rand32", "Rand48"):
    PARAM_HOOKS[_p] = geom_param
EXCLUDED["Frustum"] = frustum_excluded
EXCLUDED["module-functions"] = fun_excluded

for _p in ("Box2", "Box3"):
    PARAM_HOOKS[_p] = box_param
    EXCLUDED[_p] = box_excluded

for _p in ("M22", "M33", "M44"):
    PARAM_HOOKS[_p] = matrix_param
    CONTRACTS[_p] = matrix_contract
    EXCLUDED[_p] = matrix_excluded


def class_alphabet(pyname):
    if pyname.startswith("FrustumTest") and pyname not in _CLASS_ALPHABET:
        # no component form: built with the (separately checked) constructor from three frusta and three matrices
        suf = pyname[-1]
        fr, ms = class_alphabet("Frustum" + suf), class_alphabet("M44" + suf)
        _CLASS_ALPHABET[pyname] = [getattr(imath, pyname)(fr[i], ms[j]) for i, j in ((1, 1), (0, 6), (2, 4), (1, 0))]
    if pyname not in _CLASS_ALPHABET:
        comps = class_components(pyname)
        _CLASS_ALPHABET[pyname] = None if comps is None else [CORE._make(pyname, c) for c in comps]
    return _CLASS_ALPHABET[pyname]


def as_numbers(comp, t):
    return [float(x) for x in comp] if t in FLT else [int(x) for x in comp]


def seq_values(owner, maker):
    """tuple/list operands of a vector-like owner: its own alphabet as sequences, a 1-sequence and one of wrong length"""
    t = elem_of(owner)
    comps = class_components(owner) or []
    vals = [maker(as_numbers(c, t)) for c in comps]
    if comps:
        vals.append(maker(as_numbers(comps[0][:1], t)))
        vals.append(maker(as_numbers(list(comps[0]) + [comps[0][0]], t)))
    return vals


def object_values(g, k, pos):
    """values for a parameter declared boost::python::object: what the binding documents/accepts for that owner family"""
    owner = g.owner
    m = re.match(r"^(V|Color)([234])", owner)
    if m:
        t = elem_of(owner)
        if g.kind == "init" and len(g.ovs[k]) > 1:
            return number_alphabet("double", pos)
        if g.name in ("equalWithAbsError", "equalWithRelError") and pos == 2:
            return number_alphabet("double" if t in FLT else "int", pos)[:6]
        vals = list(class_alphabet(owner)[:5])
        if m.group(1) == "V":
            for suf in ("i", "f", "d"):
                oc = "V%s%s" % (m.group(2), suf)
                if oc != owner and hasattr(imath, oc):
                    vals += class_alphabet(oc)[:3]
        if m.group(1) == "V":
            vals += [o for _, o in vector_objects(int(m.group(2)))]      # every registered vector class, conversion-separating values
        vals += seq_values(owner, tuple)[:4]
        if g.name in ("equalWithAbsError", "equalWithRelError"):
            return vals                           # documented operand kinds of the object form: vectors and tuples
        vals += seq_values(owner, list)[:2]
        vals += number_alphabet("double" if t in FLT else "int", pos)[:4]
        return vals
    f = OBJECT_VALUES.get(re.sub(r"(i64|s|i|f|d|c)$", "", owner))
    if f:
        return f(g, k, pos)
    return None




def param_alphabet(g, k, pos, nt):
    """alphabet of parameter pos (type nt) of overload k of group g; None if values of that type cannot be synthesised"""
    h = PARAM_HOOKS.get(family_of(g.owner))
    if h:
        a = h(g, k, pos, nt)
        if a is not None:
            return a
    if g.name in ("__getitem__", "__setitem__") and pos == 1 and nt in INT_RANGE:
        n = index_len(g.owner)
        return list(range(0, n)) + [-1, -n, n, -n - 1]
    if nt in FLT or nt in INT_RANGE or nt == "bool":
        return number_alphabet(nt, pos)
    c = CPP2PY.get(nt)
    if c is not None:
        return class_alphabet(c.__name__)
    if nt == "boost::python::tuple":
        return seq_values(g.owner, tuple) or None
    if nt == "boost::python::list":
        return seq_values(g.owner, list) or None
    if nt == "boost::python::dict":
        return [{}]
    if nt == "boost::python::api::object":
        return object_values(g, k, pos)
    if nt in ENUMS:
        return [v for n, v in sorted(vars(imath).items()) if type(v).__name__ == ENUMS[nt]]
    return None




def index_len(owner):
    m = re.match(r"^(V|Color)([234])", owner)
    if m:
        return int(m.group(2))
    m = re.match(r"^M(\d)\d", owner)
    if m:
        return int(m.group(1))
    if owner.startswith("Shear6"):
        return 6
    if owner.startswith("Quat"):
        return 4
    return 3


# ------------------------------------------------------------------------------------------------
# canonical form / copies
# ------------------------------------------------------------------------------------------------
class CannotCanon(Exception):
    pass


def canon(x):
    if x is None:
        return b"N"
    t = type(x)
    if t is bool:
        return b"b1" if x else b"b0"
    if t is float:
        return b"fnan" if x != x else b"f" + struct.pack("<d", x)
    if t is str:
        return b"s" + x.encode()
    if t is tuple or t is list:
        return b"(" + b",".join(canon(e) for e in x) + b")"
    if t is dict:
        return b"{%d}" % len(x)
    if isinstance(x, int):
        return b"i%d" % int(x)
    if t.__name__.endswith("Row"):                 # row proxy of a matrix: its elements
        return canon(tuple(x[i] for i in range(len(x))))
    b = CORE._bits(x)
    if b is None:
        raise CannotCanon(t.__name__)
    return b


def clone(x):
    t = type(x)
    if x is None or t in (bool, int, float, str):
        return x
    if t is tuple:
        return tuple(clone(e) for e in x)
    if t is list:
        return [clone(e) for e in x]
    if t is dict:
        return dict(x)
    if isinstance(x, int):
        return x                                  # Boost.Python enum values are immutable ints
    c = CORE._clone(x)
    if c is None:
        raise CannotCanon(t.__name__)
    return c


def flat_numbers(x):
    """all numbers inside a value (for the undefined-behaviour guards)"""
    t = type(x)
    if t in (int, float, bool):
        return [x]
    if t in (tuple, list):
        out = []
        for e in x:
            out += flat_numbers(e)
        return out
    if x is None or t in (str, dict) or isinstance(x, int):
        return []
    b = CORE._bits(x)
    if b is None:
        return []
    name, raw = b.split(b":", 1)
    et = elem_of(name.decode())
    fmt = {"float": "f", "double": "d", "int": "i", "long": "q", "short": "h", "unsigned char": "B"}.get(et)
    if not fmt:
        return []
    sz = struct.calcsize(fmt)
    n = len(raw) // sz
    return list(struct.unpack("<%d%s" % (n, fmt), raw[:n * sz]))


# ------------------------------------------------------------------------------------------------
# inputs the library leaves undefined, and deliberate binding contracts
# ------------------------------------------------------------------------------------------------
DIV_NAMES = {"__div__", "__truediv__", "__idiv__", "__itruediv__", "__floordiv__", "__mod__", "__imod__"}
RDIV_NAMES = {"__rdiv__", "__rtruediv__"}


def owner_elem(g):
    return elem_of(g.owner) if g.owner else None


def to_int_like(x, et):
    """C++ conversion of a number to the integral element type et (None if out of range = undefined)"""
    if type(x) is float:
        if x != x or abs(x) >= 2.0 ** 63:
            return None
        x = int(x)                                 # truncation toward zero
    lo, hi = INT_RANGE[et]
    if not lo <= x <= hi:
        return None
    return x


def narrowed(x, et):
    """integer -> smaller integral type: implementation-defined, modular on this platform (defined behaviour, identical in the
    binding and in the reference) — used only to keep a divisor that BECOMES zero out of an integer division"""
    lo, hi = INT_RANGE[et]
    return (int(x) - lo) % (hi - lo + 1) + lo


def excluded(g, k, vals):
    """reason why the library's behaviour is undefined for this input (such inputs are not generated), else None"""
    et = owner_elem(g)
    integral = et in INT_RANGE
    if et == "float" or any(t == "float" for t in g.ovs[k]):
        # a double that does not fit a float: the conversion is undefined
        for v in vals:
            for x in (flat_numbers(v) if type(v) in (int, float, tuple, list) else []):
                if type(x) is float and x == x and abs(x) > 3.4028234663852886e38 and abs(x) != float("inf"):
                    return "double->float conversion out of range"
    if integral:
        # any float that has to become an element of the integral owner type must be representable
        for v in vals[1:] if g.kind != "init" else vals:
            for x in flat_numbers(v):
                if type(x) is float and to_int_like(x, et) is None:
                    return "float->integer conversion out of range"
        if g.kind in ("init", "setter") or g.name in ("setValue", "__setitem__"):
            return None
        if g.name in DIV_NAMES and len(vals) > 1 and not (g.name == "__mod__" and re.match(r"^V[23]", g.owner)):
            for x in flat_numbers(vals[1]):
                if to_int_like(x, et) == 0 or (type(x) is int and narrowed(x, et) == 0):
                    return "integer division by zero"
        if g.name in RDIV_NAMES:
            if any(x == 0 for x in flat_numbers(vals[0])):
                return "integer division by zero"
        # vector * matrix in integer arithmetic: every intermediate must stay inside the element type, w must not be 0
        if re.match(r"^V[234]", g.owner) and g.name in ("__mul__", "__imul__") and len(vals) == 2 and type(vals[1]).__name__[0] == "M":
            return int_vec_times_matrix_undefined(vals[0], vals[1], et)
    f = EXCLUDED.get(family_of(g.owner))
    if f:
        return f(g, k, vals)
    return None




def int_vec_times_matrix_undefined(v, m, et):
    """integer vector * float matrix: the library accumulates in floating point and converts each sum (and, for the
    homogeneous forms, the divisor w) to the integer element type — undefined when a sum is out of range or w converts to 0"""
    vc = flat_numbers(v)
    mc = flat_numbers(m)
    n = int(round(math.sqrt(len(mc))))
    lo, hi = INT_RANGE[et]
    hom = len(vc) == n - 1
    src = vc + [1] if hom else vc
    if len(src) != n:
        return None
    # exact when every term is a small dyadic rational (then float, double and this python arithmetic agree bit for bit)
    exact = all(abs(x) < 2 ** 20 and x * 1024 == int(x * 1024) for x in mc) and all(abs(x) < 2 ** 20 for x in src)
    cols = [sum(src[r] * mc[r * n + c] for r in range(n)) for c in range(n)]
    if exact:
        if any(not lo <= int(c) <= hi or (lo == 0 and c < 0) for c in cols):
            return "float->integer conversion out of range"
        if hom and int(cols[-1]) == 0:
            return "integer division by zero"
        return None
    for c in range(n):
        s = sum(abs(src[r] * mc[r * n + c]) for r in range(n))
        if s >= hi or (lo == 0 and any(src[r] * mc[r * n + c] < 0 for r in range(n))):
            return "float->integer conversion out of range"
    if hom and abs(cols[-1]) < 1.0 + 1e-3:
        return "integer division by zero"
    return None


def contract_raises(g, k, vals):
    """Deliberate, explicit contracts of the BINDING that differ from the library (the wrapper throws by design):
    returns the reason if the binding must raise for this input, else None."""
    et = owner_elem(g)
    nt = g.ovs[k]
    if re.match(r"^V[234]", g.owner or "") and et is not None:
        # vector / number, vector / tuple, vector / list: "Division by zero" when a divisor component is 0 (the library would
        # return inf/nan); number / vector, tuple / vector likewise when a component of the vector is 0
        if g.name in ("__div__", "__truediv__") and len(nt) == 2 and (nt[1] in FLT or nt[1] in INT_RANGE or nt[1] in ("boost::python::tuple", "boost::python::list")):
            nums = flat_numbers(vals[1])
            if type(vals[1]) in (tuple, list) and len(nums) != index_len(g.owner):
                return None
            if any(x == 0 for x in nums):
                return "binding guards division by zero"
        if g.name in RDIV_NAMES:
            if type(vals[1]) in (tuple, list) and len(vals[1]) != index_len(g.owner):
                return None
            if any(x == 0 for x in flat_numbers(vals[0])):
                return "binding guards division by zero"
    f = CONTRACTS.get(family_of(g.owner))
    if f:
        return f(g, k, vals)
    return None




# ------------------------------------------------------------------------------------------------
# running one group
# ------------------------------------------------------------------------------------------------
def tuples_for(alphas):
    n = len(alphas)
    if n <= 3:
        return itertools.product(*alphas)

    def gen():
        base = [a[0] for a in alphas]
        yield tuple(base)
        for i in range(n):
            for v in alphas[i][1:]:
                t = list(base); t[i] = v
                yield tuple(t)
        for i in range(n):
            for j in range(i + 1, n):
                for v in alphas[i][1:]:
                    for w in alphas[j][1:]:
                        t = list(base); t[i] = v; t[j] = w
                        yield tuple(t)
    return gen()


def call_binding(g, args):
    if g.kind == "init":
        return getattr(imath, g.owner)(*args)
    if g.kind == "getter":
        return getattr(args[0], g.name)
    if g.kind == "setter":
        setattr(args[0], g.name, args[1])
        return None
    if g.kind == "function":
        return getattr(imath, g.name)(*args)
    c = getattr(imath, g.owner)
    return getattr(c, g.name)(*args)


def run_pair(g, vals, alias, sides=(0, 1)):
    """-> (outcome_b, outcome_r) where outcome = ("ok", canon(ret), [canon(arg)...]) | ("raise", typename, msg) | ("refused",)"""
    outs = []
    for side in sides:
        args = [clone(v) for v in vals]
        for j in alias:
            args[j] = args[0]
        try:
            ret = call_binding(g, args) if side == 0 else REFS[g.ref](*args)
            out = ("ok", canon(ret), [canon(a) for a in args])
        except CannotCanon:
            raise
        except Exception as ex:                  # noqa: BLE001 — the exception is the observed outcome
            tn = type(ex).__name__
            if tn == "ArgumentError":
                out = ("refused", str(ex)[:120])
            else:
                out = ("raise", tn, str(ex)[:120])
        outs.append(out)
    return outs


def fmt_vals(vals, alias):
    parts = []
    for i, v in enumerate(vals):
        if type(v) in (int, float, bool, tuple, list, dict, str) or v is None:
            s = repr(v)
        elif isinstance(v, int):
            s = str(v)                             # enum value
        else:
            s = show(canon(v))                     # not repr(): the bindings' own repr is not part of the oracle (and V3c's can raise)
        nums = flat_numbers(v) if type(v) in (int, float, tuple, list) else []
        if any(type(x) is float and x != 0 and (abs(x) < 1e-4 or abs(x) > 1e6 or x != round(x, 6)) for x in nums):
            s += "=" + "[" + ",".join(float(x).hex() if type(x) is float else str(x) for x in nums) + "]"
        parts.append(s)
    return "(" + ", ".join(parts) + ")" + ("" if not alias else " with argument(s) %s the same object as argument 0" % list(alias))


def explore_group(g, deadline_at):
    res = {"idx": g.idx, "label": (g.owner + "." if g.owner else "") + g.name, "fails": [], "states": 0, "compared": 0, "calls": 0,
           "excluded": 0, "shadowed": 0, "refused": 0, "contract": 0, "classes": collections.Counter(), "covered": [], "uncovered": [],
           "notes": [], "exc_types": collections.Counter()}

    def fail(site, inp, exp, got):
        res["fails"].append((site, inp, exp, got))

    ref_sigs = [tuple(a) for a in g.ref_ovs]
    for k, nt in enumerate(g.ovs):
        label = g.label(k)
        if is_array_overload(nt, g.rets[k]):
            continue
        if tuple(nt) not in ref_sigs or g.ref is None:
            res["uncovered"].append(label)
            continue
        if any(tuple(nt) == tuple(g.ovs[j]) for j in range(k + 1, len(g.ovs))):
            res["notes"].append(label + ": registered again later with the same parameter types (the later one is what python reaches)")
            res["shadowed"] += 1
            res["covered"].append(label)
            continue
        res["covered"].append(label)
        alphas = []
        for pos, t in enumerate(nt):
            a = param_alphabet(g, k, pos, t)
            if not a:
                alphas = None
                res["notes"].append(label + ": no alphabet for parameter type " + t)
                break
            alphas.append(a)
        if alphas is None:
            res["covered"].pop(); res["uncovered"].append(label + " [no alphabet for a parameter type]")
            continue
        site = SITE + label
        selft = nt[0] if nt and g.kind in ("method", "getter", "setter") else None
        alias_sets = [()]
        if selft in CPP2PY and g.kind == "method":
            same = [j for j in range(1, len(nt)) if nt[j] == selft]
            alias_sets += [(j,) for j in same]
            if len(same) > 1:
                alias_sets.append(tuple(same))
        n_ok = 0
        for alias in alias_sets:
            al = list(alphas)
            for j in alias:
                al[j] = [None]                      # placeholder: replaced by argument 0
            for vals in tuples_for(al):
                if time.time() > deadline_at:
                    res["partial"] = True
                    return finish(res)
                vals = list(vals)
                for j in alias:
                    vals[j] = vals[0]
                res["states"] += 1
                site = SITE + label + "/args=(" + ",".join(type(v).__name__ for v in (vals[1:] if selft else vals)) + ")" + ("/aliased" if alias else "")
                kb = resolve(g.ovs, vals)
                if kb is None or tuple(g.ovs[kb]) != tuple(nt):
                    res["shadowed"] += 1
                    continue
                kr = resolve(g.ref_ovs, vals)
                if kr is None or tuple(g.ref_ovs[kr]) != tuple(nt):
                    res["shadowed"] += 1
                    continue
                must_raise = contract_raises(g, k, vals)
                why = None if must_raise else excluded(g, k, vals)
                if why:
                    res["excluded"] += 1
                    res["classes"]["excluded:" + why] += 1
                    continue
                try:
                    if must_raise:
                        ob = orf = run_pair(g, vals, alias, (0,))[0]
                    else:
                        ob, orf = run_pair(g, vals, alias)
                except CannotCanon as ex:
                    res["notes"].append(label + ": cannot canonicalise " + str(ex))
                    res["covered"].pop(); res["uncovered"].append(label + " [result type cannot be canonicalised: %s]" % ex)
                    n_ok = -1
                    break
                res["calls"] += 1 if must_raise else 2
                if ob[0] == "refused" or orf[0] == "refused":
                    res["refused"] += 1
                    if res["refused"] <= 3:
                        res["notes"].append(label + ": dispatch refused by %s for %s: %s" % ("binding" if ob[0] == "refused" else "reference", fmt_vals(vals, alias), (ob if ob[0] == "refused" else orf)[1]))
                    continue
                if must_raise:
                    res["contract"] += 1
                    res["classes"]["binding-contract-raises"] += 1
                    if ob[0] != "raise":
                        fail(site + "[binding-contract]", fmt_vals(vals, alias), "raises (%s)" % must_raise, "returned normally")
                    continue
                foreign = foreign_vector_operand(g, vals)
                if foreign and ob[0] == "raise" and orf[0] != "raise":
                    # a registered vector class the binding does not document for this parameter: raising is the binding's domain
                    # restriction, not a return value (had it returned, it would be compared with the converting constructor below)
                    res["classes"]["object-operand:vector-class-outside-the-binding's-documented-kinds-raises"] += 1
                    continue
                res["compared"] += 1
                n_ok += 1
                if alias:
                    res["classes"]["aliased-argument"] += 1
                for c in (fun_classes(g, k, vals) if not g.owner else vector_operand_classes(g, k, vals)):
                    res["classes"][c] += 1
                if orf[0] == "raise":
                    res["classes"]["raises"] += 1
                    res["exc_types"]["%s/%s" % (ob[1] if ob[0] == "raise" else "-", orf[1])] += 1
                    if ob[0] != "raise":
                        fail(site + "[binding-returns-where-library-throws]", fmt_vals(vals, alias), "raises " + orf[1] + ": " + orf[2], "returned normally")
                    continue
                if ob[0] == "raise":
                    res["exc_types"]["%s/-" % ob[1]] += 1
                    fail(site + "[binding-raises-where-library-returns]", fmt_vals(vals, alias), "returns normally", "raises %s: %s" % (ob[1], ob[2]))
                    continue
                if g.rets[k] not in ("void", "?") or orf[1] != b"N":
                    res["classes"]["returns-value"] += 1
                before = canon(vals[0]) if vals and selft else None
                if selft and orf[2] and orf[2][0] != before:
                    res["classes"]["mutates-self"] += 1
                if ob[1] != orf[1] and within_tolerance(g, k, vals, ob[1], orf[1], res):
                    res["classes"]["compared-with-a-priori-tolerance"] += 1
                elif ob[1] != orf[1]:
                    fail(site, fmt_vals(vals, alias), "return value " + show(orf[1]), show(ob[1]))
                else:
                    for i, (x, y) in enumerate(zip(ob[2], orf[2])):
                        if x != y:
                            fail(site, fmt_vals(vals, alias), "argument %d afterwards %s" % (i, show(y)), show(x))
                            break
            if n_ok < 0:
                break
        if n_ok == 0:
            res["notes"].append(label + ": no argument tuple was compared (all shadowed/excluded/refused)")
            res["classes"]["covered-overload-without-comparison"] += 1
    return finish(res)


def numbers_of_canon(b):
    if b"(" == b[:1] or b":" not in b:
        return None
    name, raw = b.split(b":", 1)
    fmt = {"float": "f", "double": "d"}.get(elem_of(name.decode()))
    if not fmt or len(raw) % struct.calcsize(fmt):
        return None
    return name, struct.unpack("<%d%s" % (len(raw) // struct.calcsize(fmt), fmt), raw)


def within_tolerance(g, k, vals, cb, cr, res):
    f = TOLERANCE.get(family_of(g.owner))
    tol = f(g, k, vals) if f else None
    if tol is None:
        return False
    a, b = numbers_of_canon(cb), numbers_of_canon(cr)
    if a is None or b is None or a[0] != b[0] or len(a[1]) != len(b[1]):
        return False
    worst = 0.0
    for x, y in zip(a[1], b[1]):
        if x != x or y != y or abs(x) == float("inf") or abs(y) == float("inf"):
            if not ((x != x and y != y) or x == y):
                return False
            continue
        worst = max(worst, abs(x - y) / tol if tol else (0.0 if x == y else float("inf")))
    res["worst_tol_ratio"] = max(res.get("worst_tol_ratio", 0.0), worst)
    return worst <= 1.0


def quat_tolerance(g, k, vals):
    """Quat.__rmul__(q, v) is python's `v * q`.  The library's operator* (Vec3, Quat) evaluates v + 2 (r (qv x v) + qv x (qv x v));
    the binding evaluates the same polynomial through v * q.toMatrix44() (also library code): mathematically identical, rounded
    differently.  Property text: "identically ... wherever both run the same C++ function, otherwise to within a few ulps of the
    sum of absolute terms".  Each component is a sum of v_i and of products 2 q_j q_k v_l, so the sum of absolute terms is at most
    |v|_inf (1 + 2 (|r|+|x|+|y|+|z|)^2); tolerance = 8 ulp of that, an ulp being at least the subnormal quantum (exact inputs agree bit for bit and never get here)."""
    if g.name == "__rmul__" and g.ovs[k][1].startswith(NS + "::Vec3<"):
        q, v = flat_numbers(vals[0]), flat_numbers(vals[1])
        eps, quantum = (2.0 ** -23, 2.0 ** -149) if elem_of(g.owner) == "float" else (2.0 ** -52, 2.0 ** -1074)
        return 8 * max(eps * max(abs(x) for x in v) * (1 + 2 * sum(abs(x) for x in q) ** 2), quantum)      # an ulp is never below the subnormal quantum
    return None


TOLERANCE["Quat"] = quat_tolerance


def quat_excluded(g, k, vals):
    # v * q: when the sum of absolute terms is itself not representable, the tolerance clause says nothing — one evaluation order
    # overflows to inf/nan in intermediate terms (2 q_j q_k in the matrix entries) where the other does not
    if g.name == "__rmul__" and g.ovs[k][1].startswith(NS + "::Vec3<"):
        q, v = flat_numbers(vals[0]), flat_numbers(vals[1])
        big = 3.4028234663852886e38 if elem_of(g.owner) == "float" else 1.7976931348623157e308
        try:
            if (1 + 2 * sum(abs(x) for x in q) ** 2) * max(1.0, max(abs(x) for x in v)) >= big / 8:
                return "sum of absolute terms of v*q not representable"
        except OverflowError:
            return "sum of absolute terms of v*q not representable"
    return None


EXCLUDED["Quat"] = quat_excluded


def finish(res):
    res["classes"] = dict(res["classes"])
    res["exc_types"] = dict(res["exc_types"])
    return res


def show(b):
    """readable form of a canonical byte string"""
    if b[:1] == b"f" and len(b) == 9:
        return repr(struct.unpack("<d", b[1:])[0])
    if b"(" == b[:1] or len(b) > 200:
        return b.hex() if len(b) <= 200 else b[:200].hex() + "..."
    if b":" in b:
        name, raw = b.split(b":", 1)
        et = elem_of(name.decode())
        fmt = {"float": "f", "double": "d", "int": "i", "long": "q", "short": "h", "unsigned char": "B"}.get(et)
        if fmt and len(raw) % struct.calcsize(fmt) == 0:
            vals = struct.unpack("<%d%s" % (len(raw) // struct.calcsize(fmt), fmt), raw)
            return name.decode() + "[" + ",".join((repr(v) if v == round(v, 6) and 1e-4 < abs(v) < 1e6 or v == 0 else float(v).hex()) if type(v) is float else str(v) for v in vals) + "]"
        return name.decode() + ":" + raw.hex()
    try:
        return b.decode()
    except UnicodeDecodeError:
        return b.hex()


# ------------------------------------------------------------------------------------------------
# sharding (a crash inside the library or a binding is an observed outcome of that group, not a harness death)
# ------------------------------------------------------------------------------------------------
def worker(indices, groups, deadline_at, path):
    with open(path, "a") as f:
        for idx in indices:
            f.write("START %d\n" % idx); f.flush()
            try:
                r = explore_group(groups[idx], deadline_at)
            except Exception:                    # noqa: BLE001 — harness bug: reported as such, never as a violation of the property
                r = {"idx": idx, "label": groups[idx].refname(), "harness_error": traceback.format_exc(limit=4)}
            f.write("DONE %d %s\n" % (idx, json.dumps(r))); f.flush()
    os._exit(0)


def run_sharded(groups, todo, deadline_at, tmpdir):
    results, crashed = {}, []
    pending = list(todo)
    rnd = 0
    while pending:
        rnd += 1
        shards = [pending[i::NPROC] for i in range(NPROC)]
        procs = []
        for k, sh in enumerate(shards):
            if not sh:
                continue
            path = os.path.join(tmpdir, "c20s-%d-r%d-w%d.jsonl" % (os.getpid(), rnd, k))
            if os.path.exists(path):
                os.remove(path)
            pid = os.fork()
            if pid == 0:
                worker(sh, groups, deadline_at, path)
            procs.append((pid, sh, path))
        pending = []
        for pid, sh, path in procs:
            _, status = os.waitpid(pid, 0)
            started, done = None, set()
            if os.path.exists(path):
                for line in open(path):
                    if line.startswith("START "):
                        started = int(line.split()[1])
                    elif line.startswith("DONE "):
                        _, i, js = line.split(" ", 2)
                        results[int(i)] = json.loads(js); done.add(int(i))
                os.remove(path)
            if status != 0:
                if started is not None and started not in done:
                    crashed.append((started, status))
                    done.add(started)
                pending += [i for i in sh if i not in done]
    return results, crashed


def family_of(owner):
    if not owner:
        return "module-functions"
    return re.sub(r"(i64|s|i|f|d|c)$", "", owner)


def main():
    tmpdir = os.environ.get("VERIF_PYBUILD", "/tmp")
    t_dead = R.t0 + R.deadline
    groups = discover()
    R.declare("returns-value", "mutates-self", "raises", "aliased-argument")
    if not os.environ.get("C20S_ONLY") and not R.replay_site:
        R.declare(*["object-operand:vector-of-class-V?%s" % k for k in VECTOR_OBJECT_COMPONENTS])
        R.declare("object-operand:vector-of-another-element-type", "object-operand:int64-component-beyond-int32", "object-operand:int64-component-beyond-2^53",
                  "object-operand:double-component-not-a-float", "object-operand:floating-component-not-an-integer",
                  "module-function:subnormal-argument", "module-function:argument-at-smallest-normal", "module-function:argument-at-max",
                  "module-function:huge-and-tiny-arguments-together", "module-function:lerpfactor-quotient-would-overflow (library returns 0)",
                  "module-function:lerpfactor-empty-span")
    only = os.environ.get("C20S_ONLY")
    if R.replay_site:                              # --replay-site "[scalar:]scalar-binding-differs-from-library:<Class>.<method>(...": only that name
        m = re.search(re.escape(SITE) + r"(?:(\w+)\.)?(\w+)\(", R.replay_site) or re.search(r"crash:(?:(\w+)\.)?(\w+)", R.replay_site)
        if m:
            only = "^%s__%s$" % (m.group(1) or "imath", m.group(2))
    todo = [g.idx for g in groups if not only or re.search(only, g.refname())]
    rot = R.seed % max(1, len(todo))
    todo = todo[rot:] + todo[:rot]
    if R.stage("selfcheck"):
        a, b = CORE._make("V3f", [1.0, 2.0, 3.0]), CORE._make("V3f", [1.0, 2.0, 3.0000002384185791])
        if canon(a) == canon(b) or canon(CORE._make("V3f", [0.0, 0.0, 0.0])) == canon(CORE._make("V3f", [-0.0, 0.0, 0.0])) or canon(0.0) == canon(-0.0):
            R.fail("harness.canon-not-bitwise", "V3f one-ulp / signed zero", "different", "equal")
        c = clone(a); c.x = 9.0
        if canon(a) != canon(CORE._make("V3f", [1.0, 2.0, 3.0])):
            R.fail("harness.clone-shares-storage", "V3f", "independent copy", "shared")
        if REF_CLASHES:
            R.fail("harness.reference-defined-twice", ",".join(REF_CLASHES[:10]), "one definition per name", "several modules define it")
        if parse_sig("void* f(boost::python::api::object [,int [,float]])")[2] != [["boost::python::api::object"], ["boost::python::api::object", "int"], ["boost::python::api::object", "int", "float"]]:
            R.fail("harness.signature-parser", "optional tail", "3 overloads", "other")
        R.stage_done("canonical form separates 1-ulp and signed-zero differences; clones are independent; %d reference modules" % len(REF_MODULES))
    if R.stage("scalar-bindings-vs-library"):
        results, crashed = run_sharded(groups, todo, t_dead, tmpdir)
        covered, uncovered, notes = [], [], []
        partial = False
        fam = collections.Counter()
        exc_types = collections.Counter()
        for idx in sorted(results):
            r = results[idx]
            if r.get("harness_error"):
                R.fail("harness.exception", r["label"], "", r["harness_error"][-600:])
                continue
            partial = partial or r.get("partial", False)
            R.add("states", r["states"]); R.add("transitions", r["compared"]); R.add("evaluations", r["calls"])
            R.add("excluded_undefined", r["excluded"]); R.add("shadowed_or_unreachable", r["shadowed"]); R.add("dispatch_refused", r["refused"])
            R.add("binding_contract_checked", r["contract"])
            covered += r["covered"]; uncovered += r["uncovered"]; notes += r["notes"]
            for k, v in r["classes"].items():
                R.cls(k, v)
            for k, v in r["exc_types"].items():
                exc_types[k] += v
            if r["compared"]:
                fam[family_of(groups[idx].owner)] += r["compared"]
            if "worst_tol_ratio" in r:
                R.note_max("worst |binding - library| / a-priori tolerance (Quat v*q)", r["worst_tol_ratio"])
            for site, inp, exp, got in r["fails"]:
                R.fail(site, inp, exp, got)
        for idx, status in crashed:
            g = groups[idx]
            R.fail("crash:" + (g.owner + "." if g.owner else "") + g.name, "process died while exploring this name", "no crash", "signal %d / status %d" % (status & 0x7f, status))
        for k, v in sorted(fam.items()):
            R.cls("family:" + k, v)
        R.add("overloads_discovered", len(covered) + len(uncovered))
        R.add("overloads_with_reference", len(covered))
        R.add("overloads_without_reference", len(uncovered))
        R.note("scalar_overloads_discovered", len(covered) + len(uncovered))
        R.note("scalar_overloads_with_reference", len(covered))
        R.note("overloads_without_reference", json.dumps(sorted(uncovered)))
        R.note("exception_types_binding/reference", json.dumps(dict(exc_types)))
        R.note("reference_modules", ",".join(REF_MODULES))
        R.note("array_like_classes_left_to_c20_explore", ",".join(sorted(cn for cn in dir(imath) if isinstance(getattr(imath, cn), type) and ARRAYISH.search(cn))))
        R.assume("reference modules and bindings are compiled for the x86-64 baseline without -ffast-math (no FMA contraction, no x87): inline library code rounds identically in both")
        R.assume("Boost.Python docstring signatures describe the overloads and their registration order")
        R.note("remarks", json.dumps(notes[:300]))
        for r in list(results.values())[:8]:
            if r.get("compared"):
                R.sample("%s: %d argument tuples, %d compared" % (r["label"], r["states"], r["compared"]))
        if partial or len(results) + len(crashed) < len(todo):
            R.stage_partial("%d of %d names finished before the deadline" % (len(results), len(todo)))
        else:
            R.stage_done("%d names, %d overloads with a reference x all argument tuples of the stated alphabets (+ aliased)" % (len(results), len(covered)))
    return R.finish()


if __name__ == "__main__":
    sys.exit(main())
