// Reference functions for the scalar Quat bindings, written against ImathQuat.h / ImathEuler.h.
#include "verifref_common.hpp"
using namespace vr;

template <class T> static void quat_refs (const char* cls)
{
    typedef Quat<T> Q;
    typedef Vec3<T> V;
    Reg D (cls);
    D ("__init__", +[] () { return Q (); });
    D ("__init__", +[] (const Quat<float>& q) { return Q (q); });
    D ("__init__", +[] (const Quat<double>& q) { return Q (q); });
    D ("__init__", +[] (T r, T x, T y, T z) { return Q (r, x, y, z); });
    D ("__init__", +[] (T r, const V& v) { return Q (r, v); });
    D ("__init__", +[] (const Euler<T>& e) { return e.toQuat (); });
    D ("__copy__", +[] (const Q& q) { return Q (q); });
    D ("__deepcopy__", +[] (const Q& q, bp::dict&) { return Q (q); });
    D ("identity", +[] (Q&) { return Q::identity (); });
    D ("invert", +[] (Q& q) { return Q (q.invert ()); });
    D ("inverse", +[] (Q& q) { return q.inverse (); });
    D ("normalize", +[] (Q& q) { return Q (q.normalize ()); });
    D ("normalized", +[] (Q& q) { return q.normalized (); });
    D ("length", +[] (Q& q) { return q.length (); });
    D ("rotateVector", +[] (const Q& q, const V& v) { return q.rotateVector (v); });
    D ("setAxisAngle", +[] (Q& q, const V& axis, T radians) { return Q (q.setAxisAngle (axis, radians)); });
    D ("setRotation", +[] (Q& q, const V& from, const V& to) { return Q (q.setRotation (from, to)); });
    D ("angle", +[] (Q& q) { return q.angle (); });
    D ("axis", +[] (Q& q) { return q.axis (); });
    D ("toMatrix33", +[] (Q& q) { return q.toMatrix33 (); });
    D ("toMatrix44", +[] (Q& q) { return q.toMatrix44 (); });
    D ("log", +[] (Q& q) { return q.log (); });
    D ("exp", +[] (Q& q) { return q.exp (); });
    D ("v", +[] (Q& q) { return q.v; });
    D ("r", +[] (Q& q) { return q.r; });
    D ("setR", +[] (Q& q, double r) { q.r = T (r); });
    D ("setV", +[] (Q& q, const V& v) { q.v = v; });
    D ("extract", +[] (Q& q, const Matrix44<T>& m) { q = IMATH_NAMESPACE::extractQuat (m); });
    D ("slerp", +[] (const Q& a, const Q& b, T t) { return IMATH_NAMESPACE::slerp (a, b, t); });
    D ("slerpShortestArc", +[] (const Q& a, const Q& b, T t) { return IMATH_NAMESPACE::slerpShortestArc (a, b, t); });
    D ("__imul__", +[] (Q& a, const Q& b) { return Q (a *= b); });
    D ("__imul__", +[] (Q& a, T t) { return Q (a *= t); });
    D ("__idiv__", +[] (Q& a, const Q& b) { return Q (a /= b); });
    D ("__idiv__", +[] (Q& a, T t) { return Q (a /= t); });
    D ("__itruediv__", +[] (Q& a, const Q& b) { return Q (a /= b); });
    D ("__itruediv__", +[] (Q& a, T t) { return Q (a /= t); });
    D ("__iadd__", +[] (Q& a, const Q& b) { return Q (a += b); });
    D ("__isub__", +[] (Q& a, const Q& b) { return Q (a -= b); });
    D ("__eq__", +[] (Q& a, const Q& b) { return a == b; });
    D ("__ne__", +[] (Q& a, const Q& b) { return a != b; });
    D ("__rmul__", +[] (Q& q, Matrix33<T>& m) { return m * q; });
    D ("__mul__", +[] (Q& q, Matrix33<T>& m) { return q * m; });
    D ("__mul__", +[] (Q& a, Q& b) { return a * b; });
    D ("__div__", +[] (Q& a, Q& b) { return a / b; });
    D ("__div__", +[] (Q& a, T t) { return a / t; });
    D ("__truediv__", +[] (Q& a, Q& b) { return a / b; });
    D ("__truediv__", +[] (Q& a, T t) { return a / t; });
    D ("__mul__", +[] (Q& a, T t) { return a * t; });
    D ("__rmul__", +[] (Q& a, T t) { return t * a; });
    D ("__add__", +[] (Q& a, Q& b) { return a + b; });
    D ("__sub__", +[] (Q& a, Q& b) { return a - b; });
    D ("__neg__", +[] (Q& a) { return -a; });
    D ("__invert__", +[] (Q& a) { return ~a; });
    D ("__xor__", +[] (Q& a, Q& b) { return a ^ b; });
    D ("__rmul__", +[] (Q& q, const V& v) { return v * q; });          // ImathQuat.h: operator* (Vec3, Quat)
}

BOOST_PYTHON_MODULE (verifref_quat)
{
    quat_refs<float> ("Quatf");
    quat_refs<double> ("Quatd");
}
