#include "verifref_vec.hpp"
BOOST_PYTHON_MODULE (verifref_vec4i)
{
    vr::vec4_refs<unsigned char> ("V4c");
    vr::vec4_refs<short> ("V4s");
    vr::vec4_refs<int> ("V4i");
    vr::vec4_refs<int64_t> ("V4i64");
}
