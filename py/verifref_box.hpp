// Reference functions for the scalar Box2/Box3 bindings, written against ImathBox.h / ImathBoxAlgo.h.
#ifndef VERIFREF_BOX_HPP
#define VERIFREF_BOX_HPP
#include "verifref_common.hpp"
namespace vr {

template <class V> void box_common (const Reg& D)
{
    typedef Box<V> B;
    typedef typename V::BaseType T;
    D ("__init__", +[] () { return B (); });                                   // "create empty box"
    D ("__init__", +[] (const V& p) { return B (p); });
    D ("__init__", +[] (const V& a, const V& b) { return B (a, b); });
    D ("__init__", +[] (const Box<typename rebindv<V, float>::type>& b) { return B (V (b.min), V (b.max)); });
    D ("__init__", +[] (const Box<typename rebindv<V, double>::type>& b) { return B (V (b.min), V (b.max)); });
    D ("__init__", +[] (const Box<typename rebindv<V, int>::type>& b) { return B (V (b.min), V (b.max)); });
    D ("__init__", +[] (const Box<typename rebindv<V, int64_t>::type>& b) { return B (V (b.min), V (b.max)); });
    // two tuples: the corner points
    D ("__init__", +[] (const bp::tuple& a, const bp::tuple& b) {
        if (seqlen (a) != long (V::dimensions ()) || seqlen (b) != long (V::dimensions ())) throw std::invalid_argument ("bad tuple");
        V p, q;
        for (unsigned i = 0; i < V::dimensions (); ++i) { p[i] = T (bp::extract<double> (a[i]) ()); q[i] = T (bp::extract<double> (b[i]) ()); }
        return B (p, q);
    });
    // one tuple: "Box(point) where point is a python tuple" of N numbers, or a pair (min, max) of vectors / tuples
    D ("__init__", +[] (const bp::tuple& t) {
        const long n = long (V::dimensions ());
        if (seqlen (t) == 2)
        {
            bp::object a = t[0], b = t[1];
            bool pair = !(bp::extract<double> (a).check ()) && !(bp::extract<double> (b).check ());
            if (pair) return B (vec_arg<V> (a), vec_arg<V> (b));
        }
        if (seqlen (t) != n) throw std::invalid_argument ("bad tuple");
        V p;
        for (long i = 0; i < n; ++i) p[int (i)] = T (bp::extract<double> (t[i]) ());
        return B (p);
    });
    D ("min", +[] (B& b) { return b.min; });
    D ("max", +[] (B& b) { return b.max; });
    D ("setMin", +[] (B& b, const V& v) { b.min = v; });
    D ("setMax", +[] (B& b, const V& v) { b.max = v; });
    D ("__eq__", +[] (B& a, const B& b) { return a == b; });
    D ("__ne__", +[] (B& a, const B& b) { return a != b; });
    D ("makeEmpty", +[] (B& b) { b.makeEmpty (); });
    D ("makeInfinite", +[] (B& b) { b.makeInfinite (); });
    D ("extendBy", +[] (B& b, const V& p) { b.extendBy (p); });
    D ("extendBy", +[] (B& b, const B& o) { b.extendBy (o); });
    D ("size", +[] (B& b) { return b.size (); });
    D ("center", +[] (B& b) { return b.center (); });
    D ("intersects", +[] (B& b, const V& p) { return b.intersects (p); });
    D ("intersects", +[] (B& b, const B& o) { return b.intersects (o); });
    D ("majorAxis", +[] (B& b) { return b.majorAxis (); });
    D ("isEmpty", +[] (B& b) { return b.isEmpty (); });
    D ("isInfinite", +[] (B& b) { return b.isInfinite (); });
    D ("hasVolume", +[] (B& b) { return b.hasVolume (); });
}

template <class T> void box2_refs (const char* cls)
{
    Reg D (cls);
    box_common<Vec2<T>> (D);
}

template <class T> void box3_refs (const char* cls)
{
    typedef Vec3<T> V;
    typedef Box<V> B;
    Reg D (cls);
    box_common<V> (D);
    D ("__copy__", +[] (const B& b) { return B (b); });
    D ("__deepcopy__", +[] (const B& b, bp::dict&) { return B (b); });
    // ImathBoxAlgo.h: transform (box, matrix)
    D ("__mul__", +[] (const B& b, const Matrix44<float>& m) { return IMATH_NAMESPACE::transform (b, m); });
    D ("__mul__", +[] (const B& b, const Matrix44<double>& m) { return IMATH_NAMESPACE::transform (b, m); });
    D ("__imul__", +[] (B& b, const Matrix44<float>& m) { b = IMATH_NAMESPACE::transform (b, m); return B (b); });
    D ("__imul__", +[] (B& b, const Matrix44<double>& m) { b = IMATH_NAMESPACE::transform (b, m); return B (b); });
}

} // namespace vr
#endif
