// Reference functions for the module-level scalar functions of imath, written against ImathFun.h, ImathColorAlgo.h,
// ImathMatrixAlgo.h and <cmath> (imath.sin etc. stand for the C++ standard library functions of the same name and type).
#include "verifref_common.hpp"
#include <cmath>
using namespace vr;

template <class T> static void fun_real (const Reg& D)
{
    D ("abs", +[] (T x) { return IMATH_NAMESPACE::abs (x); });
    D ("sign", +[] (T x) { return T (IMATH_NAMESPACE::sign (x)); });        // the library's int, in the python function's declared result type
    D ("lerp", +[] (T a, T b, T t) { return IMATH_NAMESPACE::lerp (a, b, t); });
    D ("lerpfactor", +[] (T m, T a, T b) { return IMATH_NAMESPACE::lerpfactor (m, a, b); });
    D ("clamp", +[] (T x, T lo, T hi) { return IMATH_NAMESPACE::clamp (x, lo, hi); });
    D ("cmp", +[] (T a, T b) { return IMATH_NAMESPACE::cmp (a, b); });
    D ("cmpt", +[] (T a, T b, T t) { return IMATH_NAMESPACE::cmpt (a, b, t); });
    D ("iszero", +[] (T a, T t) { return IMATH_NAMESPACE::iszero (a, t); });
    D ("equal", +[] (T a, T b, T t) { return IMATH_NAMESPACE::equal (a, b, t); });
    D ("floor", +[] (T x) { return IMATH_NAMESPACE::floor (x); });
    D ("ceil", +[] (T x) { return IMATH_NAMESPACE::ceil (x); });
    D ("trunc", +[] (T x) { return IMATH_NAMESPACE::trunc (x); });
    D ("sin", +[] (T x) { return std::sin (x); });
    D ("cos", +[] (T x) { return std::cos (x); });
    D ("tan", +[] (T x) { return std::tan (x); });
    D ("asin", +[] (T x) { return std::asin (x); });
    D ("acos", +[] (T x) { return std::acos (x); });
    D ("atan2", +[] (T y, T x) { return std::atan2 (y, x); });
    D ("sqrt", +[] (T x) { return std::sqrt (x); });
    D ("pow", +[] (T x, T y) { return std::pow (x, y); });
    D ("exp", +[] (T x) { return std::exp (x); });
    D ("log", +[] (T x) { return std::log (x); });
    D ("log10", +[] (T x) { return std::log10 (x); });
    D ("sinh", +[] (T x) { return std::sinh (x); });
    D ("cosh", +[] (T x) { return std::cosh (x); });
    D ("hsv2rgb", +[] (const Vec3<T>& c) { return IMATH_NAMESPACE::hsv2rgb (c); });
    D ("rgb2hsv", +[] (const Vec3<T>& c) { return IMATH_NAMESPACE::rgb2hsv (c); });
}

BOOST_PYTHON_MODULE (verifref_fun)
{
    Reg D ("imath");
    fun_real<float> (D);
    fun_real<double> (D);
    D ("atan", +[] (float x) { return std::atan (x); });
    D ("atan", +[] (double x) { return float (std::atan (x)); });          // the python signature declares a float result
    D ("abs", +[] (int x) { return IMATH_NAMESPACE::abs (x); });
    D ("sign", +[] (int x) { return IMATH_NAMESPACE::sign (x); });
    D ("clamp", +[] (int x, int lo, int hi) { return IMATH_NAMESPACE::clamp (x, lo, hi); });
    D ("divs", +[] (int x, int y) { return IMATH_NAMESPACE::divs (x, y); });
    D ("mods", +[] (int x, int y) { return IMATH_NAMESPACE::mods (x, y); });
    D ("divp", +[] (int x, int y) { return IMATH_NAMESPACE::divp (x, y); });
    D ("modp", +[] (int x, int y) { return IMATH_NAMESPACE::modp (x, y); });
    // documented: "the XYZ rotation vector that rotates 'fromDir' to 'toDir' using the up vector 'upDir'"
    D ("rotationXYZWithUpDir", +[] (const Vec3<float>& from, const Vec3<float>& to, const Vec3<float>& up) {
        Vec3<float> r;
        IMATH_NAMESPACE::extractEulerXYZ (IMATH_NAMESPACE::rotationMatrixWithUpDir (from, to, up), r);
        return r;
    });
}
