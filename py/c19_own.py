"""C19 exploration 3: ownership. An owner and up to two objects derived from it (or from one another) are released in
every order, with gc.collect() after every release; after each release every object that is still reachable must still
be valid.

Oracle. For each derived view the scenario lists its *storage holders*: the objects of the scenario that own (share
ownership of) the memory the view points into, as established from the anchored code (a FixedArray created from Python,
its copies, masked references and slices hold a shared handle; FixedMatrix / FixedVArray rows, element references,
SizeHelper, item references and in-place-operator results borrow). While the view is reachable at least one holder must
be alive -- either still named, or kept alive by the bindings, which is observed through a weakref (Boost.Python
instances are weak-referenceable). If no holder is alive the view dangles: site `own.<view>.owner-freed`. Otherwise the
view is read (must equal the values read right after construction: `own.<view>.reads-wrong`) and, when writable, the
same values are written back through it. A dangling view is only dereferenced under AddressSanitizer, where the access
is a fatal, observed outcome (`own.<scenario>.fatal`); in the plain build it would be undefined behaviour.
"""
import gc, itertools, operator, weakref
import imath
from c19_common import run_case, int_array, ASAN, Tally


def _fill(a, vals):
    for i, v in enumerate(vals): a[i] = v
    return a


def rd_arr(a): return [repr(a[i]) for i in range(len(a))]
def rd_val(e): return repr(e)
def rd_mv(m): return m.tolist()
def rd_size(s): return rd_arr(s[slice(None)])
def rd_mat(m): return [rd_arr(m[i]) for i in range(len(m))]
def rd_var(v): return [rd_arr(v[i]) for i in range(len(v))]
def rd_2d(a): return [[repr(a.item(i, j)) for j in range(a.size()[1])] for i in range(a.size()[0])]


def wb_arr(a):
    for i in range(len(a)): a[i] = a[i]


def wb_mv(m):
    if m.ndim == 1 and not m.readonly:
        for i in range(len(m)): m[i] = m[i]


def wb_v3(e): e.x = e.x


# Each scenario: name, build() -> list of (objname, object, label, reader, writer-or-None, holders, parent).
# parent = the object the view was derived from; a dangling view is blamed on the first link of its derivation chain that
# failed to keep its parent alive, so that one broken call policy owns one site whatever is derived further from it.
def s_int_masked_buffer():
    o = _fill(imath.IntArray(4), [1, 2, 3, 4])
    d1 = o[int_array([1, 0, 1, 1])]
    d2 = memoryview(o)
    return [("o", o, "FixedArray", rd_arr, wb_arr, None, None), ("d1", d1, "FixedArray.masked-reference", rd_arr, wb_arr, None, None),
            ("d2", d2, "FixedArray.memoryview", rd_mv, wb_mv, ["o", "d1"], "o")]


def s_float_buffer_slice():
    o = _fill(imath.FloatArray(4), [1.0, 2.0, 3.0, 4.0])
    d1 = memoryview(o); d2 = d1[1:]
    return [("o", o, "FixedArray", rd_arr, wb_arr, None, None), ("d1", d1, "FixedArray.memoryview", rd_mv, wb_mv, ["o"], "o"),
            ("d2", d2, "FixedArray.memoryview>slice", rd_mv, wb_mv, ["o"], "d1")]


def s_v3f_elem_masked():
    o = _fill(imath.V3fArray(3), [imath.V3f(i, i + 1, i + 2) for i in (1, 4, 7)])
    d1 = o[1]; d2 = o[int_array([0, 1, 1])]
    return [("o", o, "FixedArray", rd_arr, wb_arr, None, None), ("d1", d1, "FixedArray.element-reference", rd_val, wb_v3, ["o", "d2"], "o"),
            ("d2", d2, "FixedArray.masked-reference", rd_arr, wb_arr, None, None)]


def s_v3f_masked_elem():
    o = _fill(imath.V3fArray(3), [imath.V3f(i, i + 1, i + 2) for i in (1, 4, 7)])
    d1 = o[int_array([0, 1, 1])]; d2 = d1[-1]
    return [("o", o, "FixedArray", rd_arr, wb_arr, None, None), ("d1", d1, "FixedArray.masked-reference", rd_arr, wb_arr, None, None),
            ("d2", d2, "FixedArray.masked-reference>element-reference", rd_val, wb_v3, ["o", "d1"], "d1")]


def s_int_iop_result():
    o = _fill(imath.IntArray(3), [1, 2, 3])
    d1 = operator.iadd(o, 1)
    m = o[int_array([1, 0, 1])]
    d2 = operator.iadd(m, 1); del m
    return [("o", o, "FixedArray", rd_arr, wb_arr, None, None), ("d1", d1, "FixedArray.inplace-op-result", rd_arr, wb_arr, ["o"], "o"),
            ("d2", d2, "FixedArray.masked-reference.inplace-op-result", rd_arr, wb_arr, None, None)]


def _mat(C, rows, cols):
    m = C(rows, cols)
    for i in range(rows):
        r = m[i]
        for j in range(cols): r[j] = 10 * i + j
        del r
    return m


def s_matrix_row_masked():
    o = _mat(imath.IntMatrix, 2, 3)
    d1 = o[1]; d2 = d1[int_array([1, 0, 1])]
    return [("o", o, "FixedMatrix", rd_mat, None, None, None), ("d1", d1, "FixedMatrix.row", rd_arr, wb_arr, ["o"], "o"),
            ("d2", d2, "FixedMatrix.row>masked-reference", rd_arr, wb_arr, ["o"], "d1")]


def s_matrix_two_rows():
    o = _mat(imath.FloatMatrix, 2, 2)
    d1 = o[0]; d2 = o[-1]
    return [("o", o, "FixedMatrix", rd_mat, None, None, None), ("d1", d1, "FixedMatrix.row", rd_arr, wb_arr, ["o"], "o"),
            ("d2", d2, "FixedMatrix.row", rd_arr, wb_arr, ["o"], "o")]


def s_matrix_slice_row():
    o = _mat(imath.DoubleMatrix, 3, 2)
    d1 = o[0:2]; d2 = d1[1]
    return [("o", o, "FixedMatrix", rd_mat, None, None, None), ("d1", d1, "FixedMatrix.slice-copy", rd_mat, None, None, None),
            ("d2", d2, "FixedMatrix.row", rd_arr, wb_arr, ["d1"], "d1")]


def _var(C, sizes, mk):
    v = C(len(sizes))
    for i, s in enumerate(sizes): v.size[i] = s
    for i, s in enumerate(sizes):
        r = v[i]
        for j in range(s): r[j] = mk(10 * i + j)
        del r
    return v


def s_varray_row_size():
    o = _var(imath.VIntArray, [2, 0, 3], int)
    d1 = o[2]; d2 = o.size
    return [("o", o, "FixedVArray", rd_var, None, None, None), ("d1", d1, "FixedVArray.row", rd_arr, wb_arr, ["o"], "o"),
            ("d2", d2, "FixedVArray.size-helper", rd_size, None, ["o"], "o")]


def s_varray_row_masked():
    o = _var(imath.VFloatArray, [3, 1], float)
    d1 = o[0]; d2 = d1[int_array([1, 0, 1])]
    return [("o", o, "FixedVArray", rd_var, None, None, None), ("d1", d1, "FixedVArray.row", rd_arr, wb_arr, ["o"], "o"),
            ("d2", d2, "FixedVArray.row>masked-reference", rd_arr, wb_arr, ["o"], "d1")]


def s_varray_masked_row():
    o = _var(imath.VIntArray, [2, 1, 2], int)
    d1 = o[int_array([1, 0, 1])]; d2 = d1[1]
    return [("o", o, "FixedVArray", rd_var, None, None, None), ("d1", d1, "FixedVArray.masked-reference", rd_var, None, None, None),
            ("d2", d2, "FixedVArray.row", rd_arr, wb_arr, ["o", "d1"], "d1")]


def s_varray_row_elem():
    o = _var(imath.VV2fArray, [2, 1], lambda k: imath.V2f(k, k + 1))
    d1 = o[0]; d2 = d1[1]
    return [("o", o, "FixedVArray", rd_var, None, None, None), ("d1", d1, "FixedVArray.row", rd_arr, wb_arr, ["o"], "o"),
            ("d2", d2, "FixedVArray.row>element-reference", rd_val, wb_v3, ["o"], "d1")]


def s_string_masked_slice():
    o = _fill(imath.StringArray(3), ["a", "b", "a"])
    d1 = o[int_array([1, 1, 0])]; d2 = o[1:3]
    return [("o", o, "StringArray", rd_arr, wb_arr, None, None), ("d1", d1, "StringArray.masked-reference", rd_arr, wb_arr, None, None),
            ("d2", d2, "StringArray.slice-copy", rd_arr, wb_arr, None, None)]


def s_c4f2d_item():
    o = imath.Color4fArray2D(2, 2)
    for i in range(2):
        for j in range(2): o[i, j] = imath.Color4f(i, j, i + j, 1)
    d1 = o.item(1, 0); d2 = o[0:1, 0:2]
    return [("o", o, "FixedArray2D", rd_2d, None, None, None), ("d1", d1, "FixedArray2D.item-reference", rd_val, None, ["o"], "o"),
            ("d2", d2, "FixedArray2D.slice-copy", rd_2d, None, None, None)]


# ---- component views (.x/.min/.r ...): they address the owner's storage with a stride, so they must share its ownership; a
# component view of an array that itself only BORROWS its storage (a FixedVArray row) must keep that array, and through it
# the V-array, alive
def _v3f(n=3): return _fill(imath.V3fArray(n), [imath.V3f(10 * i + 1, 10 * i + 2, 10 * i + 3) for i in range(n)])


def s_v3f_comp_masked():
    o = _v3f(); d1 = o.x; d2 = d1[int_array([1, 0, 1])]
    return [("o", o, "FixedArray", rd_arr, wb_arr, None, None), ("d1", d1, "FixedArray.component-view", rd_arr, wb_arr, None, None),
            ("d2", d2, "FixedArray.component-view>masked-reference", rd_arr, wb_arr, None, None)]


def s_box_min_comp():
    o = _fill(imath.Box3fArray(2), [imath.Box3f(imath.V3f(i, i + 1, i + 2), imath.V3f(i + 3, i + 4, i + 5)) for i in (1, 7)])
    d1 = o.min; d2 = d1.y
    return [("o", o, "FixedArray", rd_arr, wb_arr, None, None), ("d1", d1, "FixedArray.component-view", rd_arr, wb_arr, None, None),
            ("d2", d2, "FixedArray.component-view>component-view", rd_arr, wb_arr, None, None)]


def s_quat_masked_comp():
    o = _fill(imath.QuatfArray(3), [imath.Quatf(i, i + 1, i + 2, i + 3) for i in (1, 5, 9)])
    d1 = o[int_array([1, 0, 1])]; d2 = d1.r
    return [("o", o, "FixedArray", rd_arr, wb_arr, None, None), ("d1", d1, "FixedArray.masked-reference", rd_arr, wb_arr, None, None),
            ("d2", d2, "FixedArray.masked-reference>component-view", rd_arr, wb_arr, None, None)]


def s_c4f_comp_copy():
    o = _fill(imath.C4fArray(2), [imath.Color4f(i, i + 1, i + 2, i + 3) for i in (1, 5)])
    d1 = imath.C4fArray(o); d2 = d1.a
    return [("o", o, "FixedArray", rd_arr, wb_arr, None, None), ("d1", d1, "FixedArray.copy-constructed", rd_arr, wb_arr, None, None),
            ("d2", d2, "FixedArray.copy-constructed>component-view", rd_arr, wb_arr, None, None)]


def s_varray_row_comp():
    o = _var(imath.VV2fArray, [2, 1], lambda k: imath.V2f(k, k + 1))
    d1 = o[0]; d2 = d1.x
    return [("o", o, "FixedVArray", rd_var, None, None, None), ("d1", d1, "FixedVArray.row", rd_arr, wb_arr, ["o"], "o"),
            ("d2", d2, "FixedVArray.row>component-view", rd_arr, wb_arr, ["o"], "d1")]


def s_varray_masked_row_comp():
    o = _var(imath.VV2iArray, [1, 2, 2], lambda k: imath.V2i(k, k + 1))
    d1 = o[int_array([0, 1, 1])]; r = d1[1]; d2 = r.y; del r
    return [("o", o, "FixedVArray", rd_var, None, None, None), ("d1", d1, "FixedVArray.masked-reference", rd_var, None, None, None),
            ("d2", d2, "FixedVArray.row>component-view", rd_arr, wb_arr, ["o", "d1"], "d1")]


SCENARIOS = [("V3fArray/component-view/masked-reference-of-it", s_v3f_comp_masked), ("Box3fArray/component-view/component-of-it", s_box_min_comp),
             ("QuatfArray/masked-reference/component-of-it", s_quat_masked_comp), ("C4fArray/copy/component-of-copy", s_c4f_comp_copy),
             ("VV2fArray/row/component-of-row", s_varray_row_comp), ("VV2iArray/masked-reference/component-of-row-of-it", s_varray_masked_row_comp),
             ("IntArray/masked-reference/memoryview", s_int_masked_buffer), ("FloatArray/memoryview/memoryview-slice", s_float_buffer_slice),
             ("V3fArray/element-reference/masked-reference", s_v3f_elem_masked), ("V3fArray/masked-reference/element-of-it", s_v3f_masked_elem),
             ("IntArray/inplace-op-results", s_int_iop_result),
             ("IntMatrix/row/masked-reference-of-row", s_matrix_row_masked), ("FloatMatrix/row/row", s_matrix_two_rows),
             ("DoubleMatrix/slice-copy/row-of-copy", s_matrix_slice_row),
             ("VIntArray/row/size-helper", s_varray_row_size), ("VFloatArray/row/masked-reference-of-row", s_varray_row_masked),
             ("VIntArray/masked-reference/row-of-it", s_varray_masked_row), ("VV2fArray/row/element-of-row", s_varray_row_elem),
             ("StringArray/masked-reference/slice-copy", s_string_masked_slice), ("Color4fArray2D/item-reference/slice-copy", s_c4f2d_item)]


def play(build, order, deref_dangling):
    """Runs in a forked child. -> list of (label, kind, detail)."""
    objs = {}; meta = {}; wr = {}; base = {}
    for name, obj, label, rd, wb, holders, parent in build():
        objs[name] = obj; meta[name] = (label, rd, wb, holders, parent)
        try: wr[name] = weakref.ref(obj)
        except TypeError: wr[name] = None
        del obj
    for name in objs: base[name] = meta[name][1](objs[name])
    out = []
    steps = []
    churn = []
    for gone in order:
        del objs[gone]
        gc.collect(); gc.collect()
        # Recycle the heap: if the release freed storage that a survivor still points into, new arrays of the same allocation
        # size take it over and fill it with 0xAB bytes, so that the stale view visibly "reads-wrong" also without a sanitizer
        # (a mismatch is always a genuine failure; without one nothing is concluded from this step).
        for nbytes in (8, 16, 24, 32, 36, 40, 48, 56, 64, 72, 96, 128):
            for _ in range(3):
                c = imath.UnsignedCharArray(nbytes)
                c[slice(None)] = 0xAB
                churn.append(c)
        steps.append(gone)
        for name in list(objs):
            label, rd, wb, holders, parent = meta[name]
            dangling = False
            if holders:
                isalive = lambda h: h in objs or (wr[h] is not None and wr[h]() is not None)
                if not any(isalive(h) for h in holders):
                    dangling = True
                    x = name
                    while meta[x][4] is not None and isalive(meta[x][4]): x = meta[x][4]
                    out.append((meta[x][0], "owner-freed", "released %s; %s (%s) still reachable but none of its storage holders %s is alive; broken link: %s (%s) did not keep %s alive" %
                                (steps, name, label, holders, x, meta[x][0], meta[x][4])))
            if dangling and not deref_dangling: continue
            got = rd(objs[name])
            if got != base[name]:
                out.append((label, "reads-wrong", "released %s; %s reads %r, was %r" % (steps, name, got, base[name])))
            elif wb is not None and not dangling:
                wb(objs[name])
                got = rd(objs[name])
                if got != base[name]:
                    out.append((label, "reads-wrong", "released %s; %s after writing its own values back reads %r, was %r" % (steps, name, got, base[name])))
    return out


def run(R, thorough):
    R.declare("own.view-borrows-storage", "own.view-shares-ownership", "own.owner-released-before-view", "own.view-released-before-owner")
    n = 0
    for sname, build in SCENARIOS:
        names = ["o", "d1", "d2"]
        for order in itertools.permutations(names):
            if R.out_of_time():
                R.stage_partial("%d release orders" % n); return
            n += 1
            R.add("states")                       # one (scenario, release order) schedule
            R.add("transitions", 3)
            R.cls("own.owner-released-before-view" if order[0] == "o" else "own.view-released-before-owner")
            kind, val = run_case(play, build, order, ASAN)
            inp = "%s release order %s, gc.collect() after each" % (sname, ">".join(order))
            if kind == "fatal":
                R.fail("own.%s.fatal" % sname, inp, "every reachable object stays usable", val)
            elif kind == "exc":
                R.fail("own.%s.exception" % sname, inp, "every reachable object stays usable", val)
            else:
                for label, what, detail in val:
                    R.fail("own.%s.%s" % (label, what), inp, "a storage holder stays alive while the view is reachable" if what == "owner-freed" else "values as constructed", detail)
        for _, _, label, _, _, holders in run_case(lambda: [(a, None, c, None, None, f) for a, b, c, d, e, f, g in build()])[1]:
            R.cls("own.view-borrows-storage" if holders else "own.view-shares-ownership")
    R.sample("IntMatrix/row/masked-reference-of-row: o=IntMatrix(2,3); d1=o[1]; d2=d1[mask 101]; all 6 release orders, gc after each")
    R.stage_done("%d scenarios (owner + 2 derived objects) x all 6 release orders, gc.collect() after every release, weakref liveness + read/write-back through every survivor" % len(SCENARIOS))
