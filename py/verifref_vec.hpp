// Reference functions for the scalar Vec2/Vec3/Vec4 bindings, written against ImathVec.h / ImathVecAlgo.h / ImathMatrix.h.
// One template body for all element types; instantiated by verifref_vec2.cpp, verifref_vec3{i,f}.cpp, verifref_vec4{i,f}.cpp.
#ifndef VERIFREF_VEC_HPP
#define VERIFREF_VEC_HPP
#include "verifref_common.hpp"

namespace vr {

template <class V, class S> struct rebind : rebindv<V, S> {};

// "object" operands of the bindings: a vector of another element type (every vector class of that dimension the module
// registers), a tuple or list of N numbers, or one number (broadcast) — converted with the library's converting constructors.
template <class V> bool vec_from_object (const bp::object& o, V& out, bool allow_scalar)
{
    typedef typename V::BaseType T;
    typedef typename rebind<V, int>::type VI;
    typedef typename rebind<V, float>::type VF;
    typedef typename rebind<V, double>::type VD;
    bp::extract<const V&> e0 (o);
    if (e0.check ()) { out = e0 (); return true; }
    bp::extract<const VI&> e1 (o);
    if (e1.check ()) { out = V (e1 ()); return true; }
    bp::extract<const VF&> e2 (o);
    if (e2.check ()) { out = V (e2 ()); return true; }
    bp::extract<const VD&> e3 (o);
    if (e3.check ()) { out = V (e3 ()); return true; }
    {   // the remaining registered vector classes of this dimension (int64, short, unsigned char): same converting constructor
        bp::extract<const typename rebind<V, int64_t>::type&> e (o);
        if (e.check ()) { out = V (e ()); return true; }
    }
    {
        bp::extract<const typename rebind<V, short>::type&> e (o);
        if (e.check ()) { out = V (e ()); return true; }
    }
    {
        bp::extract<const typename rebind<V, unsigned char>::type&> e (o);
        if (e.check ()) { out = V (e ()); return true; }
    }
    if (PyTuple_Check (o.ptr ()) || PyList_Check (o.ptr ())) { out = from_seq<V> (o); return true; }
    if (allow_scalar)
    {
        bp::extract<double> e5 (o);
        if (e5.check ()) { out = V (T (e5 ())); return true; }
    }
    return false;
}

// ---- operators with an operand vector of element type S:  V op V(w)   (ImathVec.h converting constructor + operator)
template <class V, class S> void vec_mixed (const Reg& D)
{
    typedef typename rebind<V, S>::type W;
    D ("__add__", +[] (const V& a, const W& b) { return a + V (b); });
    D ("__sub__", +[] (const V& a, const W& b) { return a - V (b); });
    D ("__mul__", +[] (const V& a, const W& b) { return a * V (b); });
    D ("__div__", +[] (const V& a, const W& b) { return a / V (b); });
    D ("__truediv__", +[] (const V& a, const W& b) { return a / V (b); });
    D ("__iadd__", +[] (V& a, const W& b) { return V (a += V (b)); });
    D ("__isub__", +[] (V& a, const W& b) { return V (a -= V (b)); });
    D ("__imul__", +[] (V& a, const W& b) { return V (a *= V (b)); });
}

// ---- tuple / list operand
template <class V, class P> void vec_seq (const Reg& D)
{
    D ("__add__", +[] (const V& a, const P& t) { return a + from_seq<V> (t); });
    D ("__radd__", +[] (const V& a, const P& t) { return from_seq<V> (t) + a; });
    D ("__sub__", +[] (const V& a, const P& t) { return a - from_seq<V> (t); });
    D ("__rsub__", +[] (const V& a, const P& t) { return from_seq<V> (t) - a; });
    D ("__div__", +[] (const V& a, const P& t) { return a / from_seq<V> (t); });
    D ("__truediv__", +[] (const V& a, const P& t) { return a / from_seq<V> (t); });
    D ("__rdiv__", +[] (const V& a, const P& t) { return from_seq<V> (t) / a; });
    D ("__rtruediv__", +[] (const V& a, const P& t) { return from_seq<V> (t) / a; });
}

// a tuple of ONE number multiplies like that number, a tuple of N numbers like the vector
template <class V> V mul_seq (const V& a, const bp::object& t)
{
    typedef typename V::BaseType T;
    if (seqlen (t) == 1) return a * num<T> (t[0]);
    return a * from_seq<V> (t);
}

template <class V> void vec_float_only (const Reg& D, std::true_type /*integral*/) {}
template <class V> void vec_float_only (const Reg& D, std::false_type)
{
    typedef typename V::BaseType T;
    D ("length", +[] (const V& a) { return a.length (); });
    D ("normalize", +[] (V& a) { return V (a.normalize ()); });
    D ("normalizeExc", +[] (V& a) { return V (a.normalizeExc ()); });
    D ("normalizeNonNull", +[] (V& a) { return V (a.normalizeNonNull ()); });
    D ("normalized", +[] (const V& a) { return a.normalized (); });
    D ("normalizedExc", +[] (const V& a) { return a.normalizedExc (); });
    D ("normalizedNonNull", +[] (const V& a) { return a.normalizedNonNull (); });
    // ImathVecAlgo.h: project(s,t) = projection of t onto s;  v.project(s) projects v onto s
    D ("project", +[] (const V& v, const V& s) { return IMATH_NAMESPACE::project (s, v); });
    // orthogonal(s,t): perpendicular to s in the plane of s and t;  reflect(s,t): s reflected in the plane perpendicular to t
    D ("orthogonal", +[] (const V& s, const V& t) { return IMATH_NAMESPACE::orthogonal (s, t); });
    D ("reflect", +[] (const V& s, const V& t) { return IMATH_NAMESPACE::reflect (s, t); });
}

// ---- what all dimensions share
template <class V> void vec_common (const Reg& D)
{
    typedef typename V::BaseType T;
    enum { N = dims<V>::n };
    D ("__init__", +[] (const V& a) { return V (a); });
    D ("__init__", +[] () { return V (T (0)); });                 // documented: "initialize to (0,0,0)"
    D ("__init__", +[] (const bp::object& o) {
        V v;
        if (!vec_from_object (o, v, true)) throw std::invalid_argument ("not convertible to a vector");
        return v;
    });
    D ("__copy__", +[] (const V& a) { return V (a); });
    D ("__deepcopy__", +[] (const V& a, bp::dict&) { return V (a); });
    D ("__len__", +[] (const V&) { return long (V::dimensions ()); });
    D ("__getitem__", +[] (V& a, long i) { return a[int (pyindex (i, N))]; });
    D ("__setitem__", +[] (V& a, long i, T x) { a[int (pyindex (i, N))] = x; });
    D ("baseTypeEpsilon", +[] () { return V::baseTypeEpsilon (); });
    D ("baseTypeMax", +[] () { return V::baseTypeMax (); });
    D ("baseTypeLowest", +[] () { return V::baseTypeLowest (); });
    D ("baseTypeSmallest", +[] () { return V::baseTypeSmallest (); });
    D ("dimensions", +[] () { return V::dimensions (); });
    D ("dot", +[] (const V& a, const V& b) { return a.dot (b); });
    D ("__xor__", +[] (const V& a, const V& b) { return a ^ b; });
    D ("length2", +[] (const V& a) { return a.length2 (); });
    D ("negate", +[] (V& a) { return V (a.negate ()); });
    D ("__neg__", +[] (const V& a) { return -a; });
    D ("equalWithAbsError", +[] (V& a, const V& b, T e) { return a.equalWithAbsError (b, e); });
    D ("equalWithRelError", +[] (V& a, const V& b, T e) { return a.equalWithRelError (b, e); });
    D ("equalWithAbsError", +[] (const V& a, const bp::object& b, const bp::object& e) {
        V w;
        if (!vec_from_object (b, w, false)) throw std::invalid_argument ("not convertible to a vector");
        return a.equalWithAbsError (w, T (bp::extract<double> (e) ()));
    });
    D ("equalWithRelError", +[] (const V& a, const bp::object& b, const bp::object& e) {
        V w;
        if (!vec_from_object (b, w, false)) throw std::invalid_argument ("not convertible to a vector");
        return a.equalWithRelError (w, T (bp::extract<double> (e) ()));
    });
    D ("__eq__", +[] (V& a, const V& b) { return a == b; });
    D ("__ne__", +[] (V& a, const V& b) { return a != b; });
    D ("__eq__", +[] (const V& a, const bp::tuple& t) { return a == from_seq<V> (t); });
    D ("__ne__", +[] (const V& a, const bp::tuple& t) { return a != from_seq<V> (t); });
    // same element type
    D ("__add__", +[] (const V& a, const V& b) { return a + b; });
    D ("__radd__", +[] (const V& a, const V& b) { return b + a; });
    D ("__sub__", +[] (const V& a, const V& b) { return a - b; });
    D ("__mul__", +[] (const V& a, const V& b) { return a * b; });
    D ("__div__", +[] (const V& a, const V& b) { return a / b; });
    D ("__truediv__", +[] (const V& a, const V& b) { return a / b; });
    // one number: the library's operator with the broadcast vector Vec(T a) / with the scalar where the library has one
    D ("__add__", +[] (const V& a, T t) { return a + V (t); });
    D ("__radd__", +[] (const V& a, T t) { return V (t) + a; });
    D ("__sub__", +[] (const V& a, T t) { return a - V (t); });
    D ("__rsub__", +[] (const V& a, T t) { return V (t) - a; });
    D ("__mul__", +[] (const V& a, T t) { return a * t; });
    D ("__rmul__", +[] (V& a, T t) { return t * a; });
    D ("__imul__", +[] (V& a, T t) { return V (a *= t); });
    D ("__div__", +[] (const V& a, T t) { return a / t; });
    D ("__truediv__", +[] (const V& a, T t) { return a / t; });
    D ("__rdiv__", +[] (const V& a, T t) { return V (t) / a; });
    D ("__rtruediv__", +[] (const V& a, T t) { return V (t) / a; });
    D ("__mul__", +[] (const V& a, const bp::tuple& t) { return mul_seq (a, t); });
    D ("__rmul__", +[] (const V& a, const bp::tuple& t) { return mul_seq (a, t); });
    // v /= (vector | sequence | number)
    auto idiv = +[] (V& a, const bp::object& o) {
        V w;
        if (vec_from_object (o, w, false)) return V (a /= w);
        bp::extract<double> e (o);
        if (!e.check ()) throw std::invalid_argument ("not a divisor");
        return V (a /= T (e ()));
    };
    D ("__idiv__", idiv);
    D ("__itruediv__", idiv);
    vec_mixed<V, int> (D);
    vec_mixed<V, float> (D);
    vec_mixed<V, double> (D);
    vec_seq<V, bp::tuple> (D);
    vec_seq<V, bp::list> (D);
    vec_float_only<V> (D, std::integral_constant<bool, std::is_integral<T>::value> ());
}

// ---- Vec2
template <class T> void vec2_refs (const char* cls)
{
    typedef Vec2<T> V;
    Reg D (cls);
    vec_common<V> (D);
    D ("__init__", +[] (const bp::object& x, const bp::object& y) { return V (T (bp::extract<double> (x) ()), T (bp::extract<double> (y) ())); });
    D ("x", +[] (const V& a) { return a.x; });
    D ("y", +[] (const V& a) { return a.y; });
    D ("x", +[] (V& a, T v) { a.x = v; });
    D ("y", +[] (V& a, T v) { a.y = v; });
    D ("setValue", +[] (V& a, T x, T y) { a.setValue (x, y); });
    D ("cross", +[] (const V& a, const V& b) { return a.cross (b); });
    D ("__mod__", +[] (const V& a, const V& b) { return a % b; });
    D ("closestVertex", +[] (V& p, const V& v0, const V& v1, const V& v2) { return IMATH_NAMESPACE::closestVertex (v0, v1, v2, p); });
    D ("__mul__", +[] (const V& a, const bp::list& t) { return mul_seq (a, t); });
    D ("__rmul__", +[] (const V& a, const bp::list& t) { return mul_seq (a, t); });
    D ("__mul__", +[] (V& a, const Matrix22<float>& m) { return a * m; });
    D ("__mul__", +[] (V& a, const Matrix22<double>& m) { return a * m; });
    D ("__mul__", +[] (V& a, const Matrix33<float>& m) { return a * m; });
    D ("__mul__", +[] (V& a, const Matrix33<double>& m) { return a * m; });
    D ("__imul__", +[] (V& a, const Matrix22<float>& m) { return V (a *= m); });
    D ("__imul__", +[] (V& a, const Matrix22<double>& m) { return V (a *= m); });
    D ("__imul__", +[] (V& a, const Matrix33<float>& m) { return V (a *= m); });
    D ("__imul__", +[] (V& a, const Matrix33<double>& m) { return V (a *= m); });
}

// ---- Vec3
template <class T> void vec3_refs (const char* cls)
{
    typedef Vec3<T> V;
    Reg D (cls);
    vec_common<V> (D);
    D ("__init__", +[] (const bp::object& x, const bp::object& y, const bp::object& z) {
        return V (T (bp::extract<double> (x) ()), T (bp::extract<double> (y) ()), T (bp::extract<double> (z) ()));
    });
    D ("x", +[] (const V& a) { return a.x; });
    D ("y", +[] (const V& a) { return a.y; });
    D ("z", +[] (const V& a) { return a.z; });
    D ("x", +[] (V& a, T v) { a.x = v; });
    D ("y", +[] (V& a, T v) { a.y = v; });
    D ("z", +[] (V& a, T v) { a.z = v; });
    D ("setValue", +[] (V& a, T x, T y, T z) { a.setValue (x, y, z); });
    D ("cross", +[] (const V& a, const V& b) { return a.cross (b); });
    D ("__mod__", +[] (const V& a, const V& b) { return a % b; });
    D ("closestVertex", +[] (V& p, const V& v0, const V& v1, const V& v2) { return IMATH_NAMESPACE::closestVertex (v0, v1, v2, p); });
    D ("__mul__", +[] (V& a, const Matrix33<float>& m) { return a * m; });
    D ("__mul__", +[] (V& a, const Matrix33<double>& m) { return a * m; });
    D ("__mul__", +[] (V& a, const Matrix44<float>& m) { return a * m; });
    D ("__mul__", +[] (V& a, const Matrix44<double>& m) { return a * m; });
    D ("__imul__", +[] (V& a, const Matrix44<float>& m) { return V (a *= m); });
    D ("__imul__", +[] (V& a, const Matrix44<double>& m) { return V (a *= m); });
}

// ---- Vec4
template <class T> void vec4_refs (const char* cls)
{
    typedef Vec4<T> V;
    Reg D (cls);
    vec_common<V> (D);
    D ("__init__", +[] (const bp::object& x, const bp::object& y, const bp::object& z, const bp::object& w) {
        return V (T (bp::extract<double> (x) ()), T (bp::extract<double> (y) ()), T (bp::extract<double> (z) ()), T (bp::extract<double> (w) ()));
    });
    D ("x", +[] (const V& a) { return a.x; });
    D ("y", +[] (const V& a) { return a.y; });
    D ("z", +[] (const V& a) { return a.z; });
    D ("w", +[] (const V& a) { return a.w; });
    D ("x", +[] (V& a, T v) { a.x = v; });
    D ("y", +[] (V& a, T v) { a.y = v; });
    D ("z", +[] (V& a, T v) { a.z = v; });
    D ("w", +[] (V& a, T v) { a.w = v; });
    D ("setValue", +[] (V& a, T x, T y, T z, T w) { a.setValue (x, y, z, w); });
    D ("__mul__", +[] (V& a, const Matrix44<float>& m) { return a * m; });
    D ("__mul__", +[] (V& a, const Matrix44<double>& m) { return a * m; });
    D ("__imul__", +[] (V& a, const Matrix44<float>& m) { return V (a *= m); });
    D ("__imul__", +[] (V& a, const Matrix44<double>& m) { return V (a *= m); });
}

} // namespace vr
#endif
