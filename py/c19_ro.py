"""C19 exploration 2b: a read-only array "is never modified by ANY operation".

Every callable member the class exposes (introspected: methods, operators, in-place operators, __setitem__, ...) is
called on a read-only receiver with every argument tuple of length 0, 1 and 2 over a small typed alphabet
{int index, slice, integer mask, Python number, element, array of the same class, FloatArray, DoubleArray, V3fArray, V3dArray, bool}
(plus the 27 triples over {V3fArray, V3dArray, bool}: QuatArray.orientToVectors);
after every call -- whether it returned or raised, whatever it raised -- the contents of the read-only array must be what
they were. Receivers: the read-only array, a masked reference of it, a component view of it (vector classes), a copy-
constructed handle of it. (Property clause: "An array that is read-only, and every slice, masked reference or element
accessor derived from it, is never modified by any operation".) A slice of a read-only array is an independent copy:
storing into it must leave the read-only array alone.

Non-vacuity: the same call is made on a writable twin; the calls that change the twin are counted
("ro.member.mutates-writable-twin"), so the alphabet demonstrably contains the mutating members.

Nothing is demanded about the outcome of a call other than "the read-only data did not change": which members raise is
their business (reads are welcome to succeed).
"""
import itertools
import imath
from c19_common import Codec, int_array

EXCLUDE = {"__init__", "__new__", "__class__", "__init_subclass__", "__subclasshook__", "__reduce__", "__reduce_ex__", "__getstate__", "__setstate__",
           "__sizeof__", "__dir__", "__format__", "__getattribute__", "__setattr__", "__delattr__", "__instance_size__", "__doc__", "__module__",
           "__dict__", "__weakref__", "__hash__", "__repr__", "__str__", "__del__", "__copy__", "__deepcopy__", "__getinitargs__", "__safe_for_unpickling__"}


def members(C):
    out = []
    for nm in sorted(dir(C)):
        if nm in EXCLUDE: continue
        try: attr = getattr(C, nm)
        except Exception: continue
        if callable(attr): out.append(nm)
    return out


def items(names, ns):
    return [(c, n) for c in names for n in ns]


def run_item(item, t):
    name, n = item
    cd = Codec(name)
    if not cd.has_ro: return
    base = list(range(1, n + 1))
    want = cd.want(base)
    mlist = members(cd.C)
    sel = [1 if i != 1 else 0 for i in range(n)]                  # 101.. : a sparse mask

    def receivers(readonly):
        """-> owner (observed), [(kind, receiver)]"""
        o = cd.build(base)
        if readonly: o.makeReadOnly()
        rs = [("array", o), ("masked-reference", o[int_array(sel)])]
        if not cd.view:
            try: rs.append(("copy-constructed-handle", cd.C(o)))
            except Exception: pass
        for c in ("x", "r", "min"):
            if isinstance(getattr(type(o), c, None), property):
                try: rs.append(("component-view", getattr(o, c))); break
                except TypeError: break            # V*i64Array.x: no result class registered (C20's open finding)
        return o, rs

    def alphabet(k):
        """argument alphabet for a receiver of length k (fresh objects every time: a callee may keep or modify them)."""
        # (the int is 1, not 0: integer arrays divide by it in __div__/__mod__, and a division by zero is not C19's subject)
        A = [("int", lambda: 1), ("slice", lambda: slice(None)), ("mask", lambda: int_array([1] * k)), ("number", lambda: 2),
             ("element", lambda: cd.mk(50)), ("array", lambda: cd.build([60 + j for j in range(k)]))]
        return A

    def extra(k):
        """arguments of other types that members of some classes take (QuatArray.setAxisAngle(V3Array, FloatArray), ...)."""
        def arr(C, mk):
            a = C(k)
            for j in range(k): a[j] = mk(j)
            return a
        return [("FloatArray", lambda: arr(imath.FloatArray, lambda j: 1.0 + j)), ("DoubleArray", lambda: arr(imath.DoubleArray, lambda j: 1.0 + j)),
                ("V3fArray", lambda: arr(imath.V3fArray, lambda j: imath.V3f(1 + j, 2, 3))), ("V3dArray", lambda: arr(imath.V3dArray, lambda j: imath.V3d(1 + j, 2, 3))),
                ("bool", lambda: True)]

    t.add("states")
    ro, rrs = receivers(True)
    for ridx, (kind, recv0) in enumerate(rrs):
        t.cls("ro.receiver." + kind)
        k = len(recv0)
        A = alphabet(k)
        # component views have another element type: give them their own element/array arguments
        if kind == "component-view":
            vcd = Codec(type(recv0).__name__) if type(recv0).__name__ in dir(imath) else None
            if vcd is not None:
                try:
                    vcd.mk(1)
                    A = A[:4] + [("element", lambda: vcd.mk(50)), ("array", lambda: vcd.build([60 + j for j in range(k)]))]
                except Exception: pass
            ml = members(type(recv0))
        else:
            ml = mlist
        X = extra(k)
        A2 = A + X
        tuples = [()] + [(a,) for a in A2] + list(itertools.product(A2, repeat=2)) + list(itertools.product(X[2:], repeat=3))
        w, wrs = receivers(False)
        for nm in ml:
            for tup in tuples:
                sig = "%s(%s)" % (nm, ", ".join(a[0] for a in tup))
                # ---- read-only receiver ------------------------------------------------------------------------
                recv = rrs[ridx][1]
                t.add("transitions")
                try:
                    getattr(recv, nm)(*[a[1]() for a in tup]); exc = None
                except Exception as e:
                    exc = e
                if exc is None: t.cls("ro.call.returned")
                elif type(exc).__name__ == "ArgumentError": t.cls("ro.call.no-such-overload.generic")
                elif "read-only" in str(exc) or "read only" in str(exc): t.cls("ro.call.raised-read-only")
                else: t.cls("ro.call.raised-other")
                got = cd.keys(ro)
                if got != want:
                    t.fail("readonly.member.%s.modified" % nm, "%s n=%d read-only %s .%s -> %s" % (name, n, kind, sig, "returned" if exc is None else "raised " + type(exc).__name__),
                           "read-only contents unchanged %s" % want, got)
                    ro, rrs = receivers(True)
                # ---- writable twin: which of these calls are mutating at all? ------------------------------------
                try:
                    getattr(wrs[ridx][1], nm)(*[a[1]() for a in tup])
                except Exception:
                    pass
                if cd.keys(w) != want:
                    t.cls("ro.member.mutates-writable-twin")
                    w, wrs = receivers(False)
    # a slice of a read-only array is a copy of its own
    ro, _ = receivers(True)
    for sl in (slice(None), slice(1, None), slice(None, None, -1)):
        t.add("transitions"); t.cls("ro.slice-copy")
        try:
            s = ro[sl]
            for j in range(len(s)): s[j] = cd.mk(70 + j)
        except Exception as e:
            if sl.indices(n)[0] >= 0: t.fail("readonly.slice-copy.store", "%s n=%d s=ro[%s]; s[j]=elem" % (name, n, sl), "the copy is writable", type(e).__name__)
        if cd.keys(ro) != want:
            t.fail("readonly.slice-copy.store-modified-source", "%s n=%d s=ro[%s]; s[j]=elem" % (name, n, sl), want, cd.keys(ro))
            ro, _ = receivers(True)


CLASSES = ["ro.receiver.array", "ro.receiver.masked-reference", "ro.receiver.copy-constructed-handle", "ro.receiver.component-view", "ro.call.returned",
           "ro.call.raised-read-only", "ro.call.raised-other", "ro.member.mutates-writable-twin", "ro.slice-copy"]


def run(R, thorough):
    import c19_common as cm
    from c19_common import fork_map, ASAN
    names = [c for c in (cm.all_1d_classes() if thorough else cm.QUICK_CLASSES) if hasattr(getattr(imath, c), "makeReadOnly")]
    ns = [0, 1, 3] if thorough else [3]
    if ASAN: names, ns = ["IntArray", "V3fArray", "FloatArray"], [3]
    R.declare(*CLASSES)
    ok = fork_map(run_item, items(names, ns), R, "readonly.member.worker.fatal", describe=lambda it: "%s n=%d" % it)
    R.sample("V3fArray n=3 read-only: every callable member x every argument tuple of length <=2 over {int, slice, mask, number, element, array}; contents unchanged after each call")
    msg = "%d classes x lengths %s x {read-only array, masked reference, copy-constructed handle, component view} x every callable member x 160 argument tuples (all of length <= 2 over 11 typed arguments, 27 of length 3); writable twin counts the mutating calls" % (len(names), ns)
    (R.stage_done if ok else R.stage_partial)(msg)
