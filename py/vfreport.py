"""Python twin of engine/report.hpp: same report format, consumed by tools/check.py:judge()."""
import json, sys, time


class Report:
    def __init__(self, prop):
        self.property = prop
        self.tier = "quick"; self.seed = 0; self.out = None; self.deadline = 1e18
        self.only_stages = set(); self.replay_site = None
        self.t0 = time.time()
        self.counters = {}; self.classes = {}; self.maxima = {}; self.notes = {}
        self.assumptions = set(); self.samples = []; self.completed = []; self.skipped = []
        self.vcount = {}; self.viols = []; self.exhaustive = True
        self.cur = ""; self.st0 = 0.0

    def parse(self, argv):
        i = 1
        while i < len(argv):
            a = argv[i]
            nxt = argv[i + 1] if i + 1 < len(argv) else ""
            if a == "--tier": self.tier = nxt; i += 1
            elif a == "--seed": self.seed = int(nxt); i += 1
            elif a == "--out": self.out = nxt; i += 1
            elif a == "--deadline": self.deadline = float(nxt); i += 1
            elif a == "--stage": self.only_stages.add(nxt); i += 1
            elif a == "--replay-site": self.replay_site = nxt; i += 1
            i += 1
        return self

    def thorough(self): return self.tier == "thorough"
    def elapsed(self): return time.time() - self.t0
    def out_of_time(self): return self.elapsed() > self.deadline
    def add(self, k, n=1): self.counters[k] = self.counters.get(k, 0) + n
    def cls(self, k, n=1): self.classes[k] = self.classes.get(k, 0) + n
    def declare(self, *ks):
        for k in ks: self.classes.setdefault(k, 0)
    def sample(self, s):
        if len(self.samples) < 24: self.samples.append(str(s))
    def note(self, k, v): self.notes[k] = str(v)
    def note_max(self, k, v):
        if k not in self.maxima or v > self.maxima[k]: self.maxima[k] = float(v)
    def assume(self, s): self.assumptions.add(s)

    def fail(self, site, inp, expected="", got=""):
        c = self.vcount[site] = self.vcount.get(site, 0) + 1
        if c <= 4:
            self.viols.append({"site": site, "stage": self.cur, "input": str(inp), "expected": str(expected), "got": str(got)})
        if self.replay_site:
            sys.stderr.write("REPLAY-FAIL site=%s input=%s expected=%s got=%s\n" % (site, inp, expected, got))

    def stage(self, name):
        if self.only_stages and name not in self.only_stages: return False
        if self.out_of_time():
            self.exhaustive = False; self.skipped.append(name); return False
        self.cur = name; self.st0 = self.elapsed(); return True

    def stage_done(self, bound):
        s = "%s: %s [%.1fs]" % (self.cur, bound, self.elapsed() - self.st0)
        self.completed.append(s); sys.stderr.write("  stage " + s + "\n"); sys.stderr.flush()

    def stage_partial(self, bound):
        self.exhaustive = False
        self.completed.append("%s: PARTIAL (deadline) %s" % (self.cur, bound))

    def finish(self):
        rep = {"property": self.property, "tier": self.tier, "seed": self.seed, "wall_s": round(self.elapsed(), 3),
               "exhaustive": self.exhaustive, "counters": self.counters, "classes": self.classes, "maxima": self.maxima,
               "notes": self.notes, "stages_completed": self.completed, "stages_skipped": self.skipped,
               "empty_classes": [k for k, v in self.classes.items() if v == 0],
               "assumptions": sorted(self.assumptions), "samples": self.samples,
               "violation_counts": self.vcount, "violations": self.viols}
        if self.out:
            json.dump(rep, open(self.out, "w"), indent=1)
        else:
            json.dump(rep, sys.stdout, indent=1)
        return 0
