"""C19 exploration 1c: stores and in-place operators whose SOURCE ALIASES THE TARGET.

An equivalent Python list evaluates the right-hand side completely before it stores anything:
    L = [1, 2, 3];  L[1:3] = L[0:2]          ->  [1, 1, 2]
so `a[mask 011] = a[mask 110]` must give [1, 1, 2] as well -- whatever the order in which the binding walks the
elements, an element that the store overwrites must still be read with its old value.

Model: list L of element ids. The source is read first (vals = the elements the source expression selects on L),
then written to the positions the target expression selects, in order. Wrong lengths must raise and change nothing.

Enumerated per (class, n<=N): every pair of 0/1 masks (m1, m2) for `a[m1] = a[m2]` and `a[m1] = a`; every slice of a
small alphabet x every mask m2 of the right population for `a[slice] = a[m2]`; every masked reference v = a[m1] x six
slices x every m2 for `v[slice] = a[m2]`, `v[slice] = v`; the same through a copy-constructed alias b = Array(a) of
the target (shares its storage); in-place operators whose right-hand side is the target itself / a masked reference
of it selecting the same positions. FixedVArray: every mask pair and every forward slice with a masked reference of
the target as source.
"""
import operator
import imath
from c19_common import Codec, SCALAR, int_array, masks_of
from c19_comp import family, from_vals

SL_A = [slice(s, e, st) for s in (None, 0, 1, 2, -1, -2) for e in (None, 0, 1, -1, 9) for st in (None, -1, 2, -2)]
SL_V = [slice(None), slice(None, None, -1), slice(1, None), slice(None, -1), slice(None, None, 2), slice(1, None, 2)]


def sls(sl): return "[%s:%s:%s]" % tuple("" if x is None else x for x in (sl.start, sl.stop, sl.step))
def mss(m): return "".join(map(str, m)) or "<empty>"


class _X:
    def __init__(self, item, t):
        self.name, self.n = item
        self.t = t
        self.cd = cd = Codec(self.name)
        self.fam = "StringArray" if self.name in ("StringArray", "WstringArray") else "FixedArray"
        self.base = list(range(1, self.n + 1))
        self.a = cd.build(self.base)
        self.masks = [(m, [i for i in range(self.n) if m[i]]) for m in masks_of(self.n)]

    def ctx(self, what): return "%s n=%d %s" % (self.name, self.n, what)

    def restore(self):
        a, mk = self.a, self.cd.mk
        for i, k in enumerate(self.base): a[i] = mk(k)

    def attempt(self, f):
        try:
            f(); return None
        except Exception as e:
            nm = type(e).__name__
            if nm == "ArgumentError":
                self.t.fail("alias.harness.argument-error", str(e)[:200], "call matches a registered overload", nm)
            return nm

    def outcome(self, site, what, exc, L):
        """L = expected contents after a store that must succeed, or None = the store must raise and change nothing."""
        t = self.t
        t.add("transitions")
        got = self.cd.keys(self.a)
        if L is None:
            t.cls("alias.expected-rejection")
            if exc is None or got != self.cd.want(self.base):
                t.fail(site + ".wrong-length", self.ctx(what), "an exception, contents unchanged", "%s; contents %s" % (exc or "no exception", got))
        else:
            want = self.cd.want(L)
            if exc or got != want:
                t.fail(site, self.ctx(what), want, exc or got)
        if got != self.cd.want(self.base): self.restore()

    def handles(self):
        """the target itself and, where the class can be copy-constructed, an alias handle sharing its storage."""
        hs = [("a", self.a)]
        if not self.cd.view:
            try: hs.append(("b=%s(a); b" % self.name, self.cd.C(self.a)))
            except Exception: pass
        return hs

    def stores(self):
        t, n, a, base, fam = self.t, self.n, self.a, self.base, self.fam
        for hname, h in self.handles():
            viaalias = hname != "a"
            # ---- a[m1] = h[m2]  /  a[m1] = h ----------------------------------------------------------------------
            for m1, sel1 in self.masks:
                im1 = int_array(m1)
                for m2, sel2 in self.masks:
                    src = h[int_array(m2)]
                    L = list(base); vals = [base[i] for i in sel2]
                    hazard = False
                    if len(vals) == n:
                        for i in sel1: L[i] = vals[i]
                    elif len(vals) == len(sel1):
                        for q, i in enumerate(sel1):
                            L[i] = vals[q]
                            if any(sel2[r] == i for r in range(q + 1, len(sel2))): hazard = True     # i is read after it is written by an in-order walk
                    else:
                        L = None
                    if L is not None: t.cls("alias.mask-store.hazard" if hazard else "alias.mask-store.no-hazard")
                    exc = self.attempt(lambda: a.__setitem__(im1, src))
                    self.outcome("alias.%s.mask-store.source-masked-reference-of-target" % fam,
                                 "a[mask %s] = %s[mask %s]" % (mss(m1), hname, mss(m2)), exc, L)
                exc = self.attempt(lambda: a.__setitem__(im1, h))
                self.outcome("alias.%s.mask-store.source-is-target" % fam, "a[mask %s] = %s" % (mss(m1), hname), exc, list(base))
            # ---- a[slice] = h[m2] / a[slice] = h -------------------------------------------------------------------
            for sl in SL_A:
                idxs = list(range(*sl.indices(n)))
                if sl.indices(n)[0] < 0: continue          # negative step starting before the first element: own site in exploration 1
                for m2, sel2 in self.masks:
                    if abs(len(sel2) - len(idxs)) > 1: continue
                    src = h[int_array(m2)]
                    if len(sel2) == len(idxs):
                        L = list(base)
                        for q, j in enumerate(idxs): L[j] = base[sel2[q]]
                        t.cls("alias.slice-store.negative-step" if (sl.step or 1) < 0 else "alias.slice-store.forward")
                    else:
                        L = None
                    exc = self.attempt(lambda: a.__setitem__(sl, src))
                    self.outcome("alias.%s.slice-store.source-masked-reference-of-target" % fam,
                                 "a%s = %s[mask %s]" % (sls(sl), hname, mss(m2)), exc, L)
                if viaalias and len(idxs) == n:
                    L = list(base); L[sl] = list(base)
                    exc = self.attempt(lambda: a.__setitem__(sl, h))
                    self.outcome("alias.%s.slice-store.source-copy-constructed-alias" % fam, "a%s = %s" % (sls(sl), hname), exc, L)
            # ---- v = a[m1]; v[slice] = h[m2] / v[slice] = v / v[slice] = h ---------------------------------------
            for m1, sel1 in self.masks:
                v = a[int_array(m1)]
                c1 = len(sel1)
                for sl in SL_V:
                    idxs = list(range(*sl.indices(c1)))
                    if sl.indices(c1)[0] < 0: continue
                    tgt = [sel1[j] for j in idxs]
                    for m2, sel2 in self.masks:
                        if abs(len(sel2) - len(tgt)) > 1: continue
                        src = h[int_array(m2)]
                        if len(sel2) == len(tgt):
                            L = list(base)
                            for q, j in enumerate(tgt): L[j] = base[sel2[q]]
                            t.cls("alias.masked-reference.slice-store")
                        else:
                            L = None
                        exc = self.attempt(lambda: v.__setitem__(sl, src))
                        self.outcome("alias.%s.masked-reference.slice-store.source-masked-reference-of-owner" % fam,
                                     "v=a[mask %s]; v%s = %s[mask %s]" % (mss(m1), sls(sl), hname, mss(m2)), exc, L)
                    if len(tgt) == c1 and not viaalias:
                        L = list(base)
                        for q, j in enumerate(tgt): L[j] = base[sel1[q]]
                        exc = self.attempt(lambda: v.__setitem__(sl, v))
                        self.outcome("alias.%s.masked-reference.slice-store.source-is-self" % fam,
                                     "v=a[mask %s]; v%s = v" % (mss(m1), sls(sl)), exc, L)
                    L = None
                    if len(tgt) == n:
                        L = list(base)
                        for q, j in enumerate(tgt): L[j] = base[q]
                    if abs(len(tgt) - n) <= 1:
                        exc = self.attempt(lambda: v.__setitem__(sl, h))
                        self.outcome("alias.%s.masked-reference.slice-store.source-is-owner" % fam,
                                     "v=a[mask %s]; v%s = %s" % (mss(m1), sls(sl), hname), exc, L)

    def run(self):
        t = self.t
        t.add("states")
        if self.cd.keys(self.a) != self.cd.want(self.base):
            t.fail("alias.build", self.ctx("build"), self.cd.want(self.base), self.cd.keys(self.a)); return
        self.stores()
        if self.cd.keys(self.a) != self.cd.want(self.base):
            t.fail("alias.final-state", self.ctx("array back at its baseline after all cases"), self.cd.want(self.base), self.cd.keys(self.a))


def run_item(item, t):
    if item[0] == "inplace": return run_inplace(item[1:], t)
    if item[0] == "varray": return run_varray(item[1:], t)
    _X(item[1:], t).run()


# ------------------------------------------------------------------------------------------------------ in-place operators
# The right-hand side is the target itself, a copy-constructed alias of it, or a masked reference that selects THE SAME
# positions as the left-hand side; every element then combines with itself, so the result does not depend on the order
# (or the thread) in which elements are processed: x op= x for every selected element, nothing else touched.
OPS = {"+=": (operator.iadd, lambda x: x + x), "-=": (operator.isub, lambda x: 0 * x), "*=": (operator.imul, lambda x: x * x), "/=": (operator.itruediv, lambda x: 1 + 0 * x)}
INPLACE = {"IntArray": "+-*/", "FloatArray": "+-*/", "DoubleArray": "+-*/", "ShortArray": "+-*", "UnsignedCharArray": "+-*", "SignedCharArray": "+-*",
           "V2iArray": "+-", "V2fArray": "+-", "V3fArray": "+-", "V3dArray": "+-", "V3iArray": "+-", "V4fArray": "+-", "V4dArray": "+-", "V2sArray": "+-"}


def run_inplace(item, t):
    name, n = item
    C = getattr(imath, name)
    W, _ = family(name)
    if W == 0:
        W = 1; mk = lambda vals: SCALAR[name](vals[0])
    else:
        mk = from_vals(name)
    base = [[k + j for j in range(W)] for k in range(1, n + 1)]

    def build():
        a = C(n)
        for i, v in enumerate(base): a[i] = mk(v)
        return a
    t.add("states")
    for sym in INPLACE[name]:
        o = sym + "="
        f, g = OPS[o]
        if not hasattr(C, {"+=": "__iadd__", "-=": "__isub__", "*=": "__imul__", "/=": "__itruediv__"}[o]): continue
        for m, _sel in [(None, list(range(n)))] + [(m, [i for i in range(n) if m[i]]) for m in masks_of(n)]:
            for rhs_kind in ("self", "copy-alias", "same-mask-of-owner"):
                if m is None and rhs_kind == "same-mask-of-owner": rhs_kind = "all-ones-mask-of-self"
                a = build()
                lhs = a if m is None else a[int_array(m)]
                if rhs_kind == "self": rhs = lhs
                elif rhs_kind == "copy-alias": rhs = C(lhs)
                elif rhs_kind == "all-ones-mask-of-self": rhs = a[int_array([1] * n)]
                else: rhs = a[int_array(m)]
                what = "%s n=%d lhs=%s; lhs %s %s" % (name, n, "a" if m is None else "a[mask %s]" % mss(m), o,
                                                     {"self": "lhs", "copy-alias": "%s(lhs)" % name, "all-ones-mask-of-self": "a[mask 1..1]", "same-mask-of-owner": "a[mask %s] (a second reference)" % mss(m or [])}[rhs_kind])
                t.add("transitions"); t.cls("alias.inplace." + rhs_kind)
                try:
                    f(lhs, rhs); exc = None
                except Exception as e:
                    exc = type(e).__name__
                M = [[g(x) for x in v] if i in _sel else list(v) for i, v in enumerate(base)]
                got = [repr(a[i]) for i in range(n)]
                want = [repr(mk(v)) for v in M]
                if exc or got != want:
                    t.fail("alias.inplace-op.rhs-aliases-lhs", what, want, exc or got)


# ------------------------------------------------------------------------------------------------------ FixedVArray
def run_varray(item, t):
    cname, sizes = item
    import c19_nd
    mk, c1d = c19_nd.VARS[cname]
    C = getattr(imath, cname)
    n = len(sizes)
    base = [[1 + 4 * i + j for j in range(s)] for i, s in enumerate(sizes)]

    def build():
        v = C(n)
        for i, row in enumerate(base): v.size[i] = len(row)
        for i, row in enumerate(base):
            r = v[i]
            for j, k in enumerate(row): r[j] = mk(k)
        return v

    def read(v): return [[repr(r[j]) for j in range(len(r))] for r in (v[i] for i in range(len(v)))]
    def want(M): return [[repr(mk(k)) for k in row] for row in M]
    ctx = "%s sizes=%s " % (cname, list(sizes))
    t.add("states")
    masks = [(m, [i for i in range(n) if m[i]]) for m in masks_of(n)]
    a = build()

    def outcome(site, what, exc, M):
        nonlocal a
        t.add("transitions")
        got = read(a)
        if M is None:
            if exc is None or got != want(base): t.fail(site + ".wrong-length", ctx + what, "an exception, contents unchanged", "%s; %s" % (exc or "no exception", got))
        elif exc or got != want(M):
            t.fail(site, ctx + what, want(M), exc or got)
        if got != want(base): a = build()

    for m1, sel1 in masks:
        for m2, sel2 in masks:
            src = a[int_array(m2)]
            M = [list(r) for r in base]; vals = [base[i] for i in sel2]
            if len(vals) == n:
                for i in sel1: M[i] = list(vals[i])
            elif len(vals) == len(sel1):
                for q, i in enumerate(sel1): M[i] = list(vals[q])
            else:
                M = None
            t.cls("alias.varray.mask-store")
            try: a[int_array(m1)] = src; exc = None
            except Exception as e: exc = type(e).__name__
            outcome("alias.FixedVArray.mask-store.source-masked-reference-of-target", "v[mask %s] = v[mask %s]" % (mss(m1), mss(m2)), exc, M)
    for st in [None] + list(range(0, n + 1)):
        for sp in [None] + list(range(0, n + 1)):
            for step in (None, 2):
                sl = slice(st, sp, step)
                idxs = list(range(*sl.indices(n)))
                for m2, sel2 in masks:
                    if abs(len(sel2) - len(idxs)) > 1: continue
                    src = a[int_array(m2)]
                    M = None
                    if len(sel2) == len(idxs):
                        M = [list(r) for r in base]
                        for q, j in enumerate(idxs): M[j] = list(base[sel2[q]])
                    t.cls("alias.varray.forward-slice-store")
                    try: a[sl] = src; exc = None
                    except Exception as e: exc = type(e).__name__
                    outcome("alias.FixedVArray.slice-store.source-masked-reference-of-target", "v%s = v[mask %s]" % (sls(sl), mss(m2)), exc, M)


CLASSES = ["alias.mask-store.hazard", "alias.mask-store.no-hazard", "alias.slice-store.negative-step", "alias.slice-store.forward",
           "alias.masked-reference.slice-store", "alias.expected-rejection", "alias.inplace.self", "alias.inplace.copy-alias",
           "alias.inplace.same-mask-of-owner", "alias.inplace.all-ones-mask-of-self", "alias.varray.mask-store", "alias.varray.forward-slice-store"]


def run(R, thorough):
    import itertools
    import c19_common as cm
    from c19_common import fork_map, ASAN
    names = cm.all_1d_classes() if thorough else cm.QUICK_CLASSES
    names = list(names) + (cm.VIEW_CLASSES if thorough else cm.VIEW_CLASSES[:3])
    maxn = 3 if ASAN else (5 if thorough else 4)
    items = [("store", c, n) for c in names for n in range(maxn + 1)]
    inpl = [c for c in INPLACE if hasattr(imath, c)] if thorough else ["IntArray", "FloatArray", "UnsignedCharArray", "V3fArray", "V2iArray"]
    items += [("inplace", c, n) for c in inpl for n in range(maxn + 1)]
    cv = ["VIntArray", "VFloatArray", "VV2iArray", "VV2fArray"] if thorough else ["VIntArray", "VV2fArray"]
    items += [("varray", c, sz) for c in cv for n in range(4) for sz in itertools.product((0, 1, 2), repeat=n)]
    R.declare(*CLASSES)
    ok = fork_map(run_item, items, R, "alias.worker.fatal", describe=repr)
    R.sample("IntArray [1,2,3]: a[mask 011] = a[mask 110] -> [1,1,2] (the list [1,2,3] with L[1:3] = L[0:2])")
    msg = ("%d 1-D classes x lengths 0..%d: all mask pairs a[m1]=a[m2], %d slices x masks a[s]=a[m2], masked-reference targets x %d slices, "
           "also through a copy-constructed alias of the target; in-place ops with the target as right-hand side on %d classes; "
           "FixedVArray %s lengths 0..3 x every size vector over {0,1,2}: all mask pairs and forward slices with a masked reference of the target as source"
           % (len(names), maxn, len(SL_A), len(SL_V), len(inpl), cv))
    (R.stage_done if ok else R.stage_partial)(msg)
